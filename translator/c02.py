"""C02: validation guards of the readout schedule and the table of Detector.empty -> Gallina.

Every function named below is first brought into NORMAL FORM by translator/c02_norm.py (behaviour-preserving rewrites
with explicit side conditions: helpers of the same module / class / package inlined, single-assignment locals
substituted, guard clauses == elif chains, early return / continue == nested if, module-level literal constants, loops over
constant tuples unrolled, manual counter == enumerate, constant tests folded, match / chained comparison / conditional
expression); the shapes listed here are shapes of the normal form, so a refactoring that does not change what a
function does translates to the same table, and one that does (a dropped argument, an alias taken before a
reassignment, a guard clause with the wrong polarity) does not.

Extracted (fail closed on any other shape):

* `Readout.__init__`              (pyxel/exposure/readout.py)   -> g_ctor, and g_ndarray: is a numpy array given as
  `times` converted to a list (`if isinstance(times, np.ndarray): times = times.tolist()`) before the source
  selection?  The start guard is recognised in its negative form (`start >= x[0]`, GStartBelowFirst: NaN passes)
  and in its positive form (`not start < x[0]`, GStartLtFirst: NaN refused).
* `Readout.times` setter                                        -> g_set_times
* `Readout.start_time` setter                                   -> g_set_start
* `ReadoutProperties.__init__`    (pyxel/detectors/readout_properties.py) -> g_rp
  each as the ordered list of `if <test>: raise ...` guards that precede the point where the schedule is
  stored / the steps are computed; a guard-shaped statement after that point is refused.
* `Detector.empty(reset)`         (pyxel/detectors/detector.py) -> which containers are emptied always and
  which only under `if reset:`.
* every container's `empty()` (`Photon.empty`, `Charge.empty`, `ArrayBase.empty` / an override in `Pixel`, `Signal`,
  `Image`; `Scene()` resp. `Scene.empty`) -> a program over the PIECES of state the container holds (Charge: `_array`
  AND `_frame`): sequence of if / elif / else chains whose branches re-initialise pieces; the tests may only ask
  whether a piece holds something.  The attributes assigned in each container's `__init__` must be the known ones
  (a new data attribute is refused).  Whether the `Charge.array` property stores the array derived from the particles
  back into `_array` (e_read_stores).  An `empty()` override in a Detector subclass (CCD / CMOS / MKID / APD) must call
  `super().empty(reset)` first and must not touch the six containers.
* the readout loop of `exposure.run_pipeline` and of its deprecated copy `_run_exposure_pipeline_deprecated`: one
  `for i, (time, step) in enumerate(zip(rp.times, rp.steps))` whose body stores time / time_step / pipeline_count from the
  loop variables and calls `detector.empty(<flag>)` once, before `processor.run_pipeline`; -> e_init_reset (is there a
  plain `detector.empty()` between set_readout and the loop), e_loop_reset (what <flag> says: `not
  detector.non_destructive_readout`, directly / through a local variable / through an if-else = LIfDestructive, ...),
  e_old_loop_same (the deprecated loop has the same shape).
* `Detector.set_readout(times, start_time, non_destructive)` -> sr_policy: the body is the single store
  `self._readout_properties = ReadoutProperties(times=times, start_time=start_time,
  non_destructive=non_destructive)` (SRAlwaysNew), or that store under `if self._readout_properties is None:`
  (SRKeepExisting); any other body (a path that keeps / edits the existing object, other argument wiring) is
  refused.  The call in `exposure.run_pipeline` must be the one unconditional statement
  `detector.set_readout(times=readout.times, start_time=readout.start_time,
  non_destructive=readout.non_destructive)` placed before the loop.
"""
from __future__ import annotations

import ast
from pathlib import Path

from .common import HEADER, body_no_doc, fail, find_func, find_funcs, parse
from .c02_norm import normalise

# calls the recognisers below key on (never inlined by the normaliser)
KEEP_CALLS = {"self._set_steps", "calculate_steps", "eval_range", "load_table", "self.convert_df_to_array"}
_REPO: list = []             # the tree being translated (for helpers imported from other modules of the package)
NORM_LOG: list = []          # which normalisations were applied in the last translation (evidence)


def _norm(tree: ast.Module, fn: ast.FunctionDef, cls: ast.ClassDef | None = None, abbreviate=None) -> ast.FunctionDef:
    """The function after the behaviour-preserving normalisations of translator/c02_norm.py (helpers of the same module /
    class inlined, single-assignment locals substituted, guard clauses == elif chains, module constants resolved, loops
    over constant tuples unrolled, constant tests folded, ...): the recognisers below read the NORMAL FORM."""
    try:
        out, log = normalise(tree, fn, cls, keep=KEEP_CALLS, abbreviate=abbreviate, repo=_REPO[0] if _REPO else None,
                             mutators=("set_readout",))
    except RecursionError:
        raise
    except Exception as ex:      # noqa: BLE001 -- a defect of the normaliser must not take the check down: read the text as is
        out, log = fn, [f"NORMALISER FAILED ({type(ex).__name__}: {ex}); function read without normalisation"]
    if log:
        NORM_LOG.append(f"{(cls.name + '.') if cls is not None else ''}{fn.name}: {' '.join(log)}")
    return out


def _cls_of(tree: ast.Module, name: str) -> ast.ClassDef:
    c = [n for n in ast.walk(tree) if isinstance(n, ast.ClassDef) and n.name == name]
    if len(c) != 1:
        fail(None, f"class {name}: found {len(c)}")
    return c[0]

BUCKETS = {"scene": "Scene", "photon": "Photon", "charge": "Charge", "pixel": "Pixel", "signal": "Signal",
           "image": "Image"}


def _is_raise_body(body) -> bool:
    return len(body) == 1 and isinstance(body[0], ast.Raise)


def _guard_kind(test: ast.expr, X: str, S: str) -> str:
    t = ast.unparse(test)
    table = {
        f"{X}[0] == 0": "GFirstNonZero",
        f"{S} >= {X}[0]": "GStartBelowFirst",          # negative form: false for NaN, so NaN passes
        f"{X}[0] <= {S}": "GStartBelowFirst",
        f"not {S} < {X}[0]": "GStartLtFirst",           # positive form: NaN is refused
        f"not {X}[0] > {S}": "GStartLtFirst",
        f"not np.all(np.diff({X}) > 0)": "GIncreasing",
        f"not (np.diff({X}) > 0).all()": "GIncreasing",
        f"not np.all({X}[1:] > {X}[:-1])": "GIncreasing",
        f"{X}[0] == 0.0": "GFirstNonZero",
        f"0 == {X}[0]": "GFirstNonZero",
        f"len({X}.shape) != 1": "GNdim1",
        f"not {X}.ndim == 1": "GNdim1",
        f"not {X}.size": "GNonEmpty",
        f"{X}.size < 1": "GNonEmpty",
        f"{X}.ndim != 1": "GNdim1",
        f"{X}.size == 0": "GNonEmpty",
    }
    if t not in table:
        fail(test, f"unknown validation test (array {X}, start {S})")
    return table[t]


def _guards_of_if(node: ast.If, X: str, S: str) -> list[str]:
    """An if/elif chain in which every branch raises."""
    out = []
    while True:
        if not _is_raise_body(node.body):
            fail(node, "validation branch must be a single raise")
        out.append(_guard_kind(node.test, X, S))
        if not node.orelse:
            return out
        if len(node.orelse) == 1 and isinstance(node.orelse[0], ast.If):
            node = node.orelse[0]
            continue
        fail(node, "validation chain must not have a plain else")


def _contains_raise(node: ast.AST) -> bool:
    return any(isinstance(n, ast.Raise) for n in ast.walk(node))


def _collect(stmts, X: str, S: str, is_commit) -> list[str]:
    """Guards before the first statement for which is_commit() holds; nothing guard-like after it."""
    guards, committed = [], False
    seen_commit = False
    for st in stmts:
        if is_commit(st):
            committed = seen_commit = True
            continue
        if isinstance(st, ast.If):
            if committed:
                if _contains_raise(st):
                    fail(st, "validation after the schedule has been stored")
                continue
            guards += _guards_of_if(st, X, S)
        elif isinstance(st, (ast.Assign, ast.AnnAssign, ast.Expr, ast.Pass, ast.Import, ast.ImportFrom)):
            if _contains_raise(st):
                fail(st, "unexpected raise")
        elif isinstance(st, ast.Raise):
            fail(st, "unconditional raise")
        else:
            fail(st, "unexpected statement in a validation function")
    if not seen_commit:
        fail(stmts[0] if stmts else None, "the statement that stores the schedule was not found")
    return guards


def _assigns_to(st: ast.stmt, target: str) -> bool:
    if isinstance(st, ast.Assign):
        return any(ast.unparse(t) == target for t in st.targets)
    if isinstance(st, ast.AnnAssign):
        return ast.unparse(st.target) == target
    return False


def _calls(st: ast.stmt, name: str) -> bool:
    for n in ast.walk(st):
        if isinstance(n, ast.Call) and ast.unparse(n.func) == name:
            return True
    return False


def _setter(tree, cls: str, name: str) -> ast.FunctionDef:
    c = [f for f in find_funcs(tree, name, cls)
         if any(ast.unparse(d) == f"{name}.setter" for d in f.decorator_list)]
    if len(c) != 1:
        fail(None, f"{cls}.{name} setter: found {len(c)}")
    return c[0]


def _is_ndarray_conversion(st: ast.stmt) -> bool:
    """`if isinstance(times, np.ndarray): times = times.tolist()` (or list(times) / np.asarray(times).tolist())."""
    return (isinstance(st, ast.If) and not st.orelse
            and ast.unparse(st.test) in ("isinstance(times, np.ndarray)", "isinstance(times, numpy.ndarray)")
            and len(st.body) == 1 and _assigns_to(st.body[0], "times")
            and ast.unparse(st.body[0].value) in ("times.tolist()", "list(times)", "np.asarray(times).tolist()",
                                                  "np.array(times).tolist()"))


def _is_both_given_guard(st: ast.stmt) -> bool:
    """`if times is not None and times_from_file is not None: raise ...` (normal form of the first branch of the
    source-selection chain): fires only when BOTH sources are given, which no caller of the model does."""
    if not (isinstance(st, ast.If) and not st.orelse and _is_raise_body(st.body) and isinstance(st.test, ast.BoolOp)
            and isinstance(st.test.op, ast.And)):
        return False
    return sorted(ast.unparse(v) for v in st.test.values) == ["times is not None", "times_from_file is not None"]


def _ctor_guards(fn: ast.FunctionDef) -> tuple[bool, list[str]]:
    names = [a.arg for a in fn.args.args]
    if names != ["self", "times", "times_from_file", "start_time", "non_destructive"]:
        fail(fn, "Readout.__init__ signature")
    body = body_no_doc(fn)
    # the chain that selects where the times come from
    k = next((i for i, st in enumerate(body) if isinstance(st, ast.If) and "times_from_file" in ast.unparse(st.test)
              and not _is_both_given_guard(st)), None)
    if k is None:
        fail(fn, "Readout.__init__: source-selection chain not found")
    ndarray = False
    for st in body[:k]:
        if _is_ndarray_conversion(st):
            ndarray = True
            continue
        if _is_both_given_guard(st):
            continue
        if not isinstance(st, (ast.Assign, ast.AnnAssign)) or _contains_raise(st) or _assigns_to(st, "times"):
            fail(st, "unexpected statement before the source selection")
    guards = []
    node = body[k]
    branch_tests = []
    while True:
        branch_tests.append(ast.unparse(node.test))
        if len(node.orelse) == 1 and isinstance(node.orelse[0], ast.If):
            node = node.orelse[0]
            continue
        final_else = node.orelse
        break
    if not _is_raise_body(final_else):
        fail(body[k], "source-selection chain must end with `else: raise`")
    if "times" in branch_tests:
        guards.append("GProvided")          # `elif times:` — truthiness of the argument
    elif "times is not None" in branch_tests:
        pass                                 # no truthiness test: an empty sequence reaches the next guards
    else:
        fail(body[k], "no branch consumes `times`")
    # which branch consumes `times` must build a float array of it
    ok_build = False
    node = body[k]
    while True:
        if ast.unparse(node.test) in ("times", "times is not None"):
            ok_build = any(_assigns_to(s, "self._times") and "eval_range(times)" in ast.unparse(s) for s in node.body)
        if len(node.orelse) == 1 and isinstance(node.orelse[0], ast.If):
            node = node.orelse[0]
        else:
            break
    if not ok_build:
        fail(body[k], "`times` branch must assign self._times = np.array(eval_range(times), ...)")
    guards += _collect(body[k + 1:], "self._times", "start_time", lambda st: _calls(st, "self._set_steps"))
    return ndarray, guards


scene_fresh: list = []      # set by _empty_table: Detector.empty replaces the Scene object (instead of scene.empty())


def _empty_table(fn: ast.FunctionDef) -> tuple[list[str], list[str]]:
    if [a.arg for a in fn.args.args] != ["self", "reset"]:
        fail(fn, "Detector.empty signature")
    d = fn.args.defaults
    if not (len(d) == 1 and isinstance(d[0], ast.Constant) and d[0].value is True):
        fail(fn, "Detector.empty: reset must default to True")

    def bucket_of(st) -> str:
        # self.<b>.empty()   |   self.scene = Scene()
        if isinstance(st, ast.Expr) and isinstance(st.value, ast.Call) and not st.value.args and not st.value.keywords:
            f = st.value.func
            if (isinstance(f, ast.Attribute) and f.attr == "empty" and isinstance(f.value, ast.Attribute)
                    and isinstance(f.value.value, ast.Name) and f.value.value.id == "self" and f.value.attr in BUCKETS):
                return BUCKETS[f.value.attr]
        if isinstance(st, ast.Assign) and ast.unparse(st) == "self.scene = Scene()":
            scene_fresh.append(True)
            return "Scene"
        fail(st, "Detector.empty: unexpected statement")

    always, if_reset = [], []
    scene_fresh.clear()
    for st in body_no_doc(fn):
        if isinstance(st, ast.If):
            if not (isinstance(st.test, ast.Name) and st.test.id == "reset") or st.orelse:
                fail(st, "Detector.empty: only `if reset:` without else is accepted")
            if_reset += [bucket_of(s) for s in st.body]
        else:
            always.append(bucket_of(st))
    return always, if_reset


# ------------------------------------------------------------------------------------------ containers

# class -> (file, {data attribute -> piece}, attributes of __init__ that are not data)
CONTAINERS = {
    "Scene": ("pyxel/data_structure/scene.py", {"_source": "PScene"}, set()),
    "Photon": ("pyxel/data_structure/photon.py", {"_array": "PPhoton"}, {"_num_rows", "_num_cols"}),
    "Charge": ("pyxel/data_structure/charge.py", {"_array": "PChargeArr", "_frame": "PChargeFrame"},
               {"_geo", "nextid", "columns", "EMPTY_FRAME"}),
    "ArrayBase": ("pyxel/data_structure/array.py", {"_array": None}, {"_shape", "_numbytes"}),
    "Pixel": ("pyxel/data_structure/pixel.py", {"_array": "PPixel"}, set()),
    "Signal": ("pyxel/data_structure/signal.py", {"_array": "PSignal"}, set()),
    "Image": ("pyxel/data_structure/image.py", {"_array": "PImage"}, set()),
}
BUCKET_CLASS = {"Scene": "Scene", "Photon": "Photon", "Charge": "Charge", "Pixel": "Pixel", "Signal": "Signal",
                "Image": "Image"}
# pieces whose empty value is None (the others: PPixel = zeros, PChargeArr = zeros, PChargeFrame = no row)
NONE_PIECES = {"PPhoton", "PSignal", "PImage"}
BOOKKEEPING = {"self.nextid = 0", "self._numbytes = 0"}
ZERO = ("0", "0.0")


def _is_reset_value(piece: str, v: ast.expr) -> bool:
    t = ast.unparse(v)
    if piece in NONE_PIECES:
        return t == "None"
    if piece == "PScene":
        return isinstance(v, ast.Call) and ast.unparse(v.func) in ("xr.DataTree", "DataTree", "xarray.DataTree") \
            and not v.args and all(kw.arg == "name" for kw in v.keywords)
    if piece == "PPixel":
        if not (isinstance(v, ast.Call) and ast.unparse(v.func) in ("np.zeros", "numpy.zeros")):
            return False
        shape = [ast.unparse(a) for a in v.args[:1]] + [ast.unparse(k.value) for k in v.keywords if k.arg == "shape"]
        return shape == ["self._shape"] and all(k.arg in ("shape", "dtype") for k in v.keywords) and len(v.args) <= 1
    if piece == "PChargeArr":
        return t in ("np.zeros_like(self._array)", "np.zeros(self._array.shape)",
                     "np.zeros((self._geo.row, self._geo.col), dtype=self.EXP_TYPE)",
                     "np.zeros((self._geo.row, self._geo.col))", "np.zeros(self._array.shape, dtype=self.EXP_TYPE)")
    if piece == "PChargeFrame":
        return t in ("self.EMPTY_FRAME.copy()", "self.EMPTY_FRAME.copy(deep=True)",
                     "pd.DataFrame(columns=self.columns, dtype=float)", "self._frame.iloc[0:0]")
    return False


def _reset_stmt(st: ast.stmt, pieces: dict) -> str | None:
    """The piece a statement re-initialises; None for a bookkeeping statement; refuses anything else."""
    if isinstance(st, ast.Pass) or isinstance(st, (ast.Import, ast.ImportFrom)) or ast.unparse(st) in BOOKKEEPING:
        return None
    if isinstance(st, ast.Expr) and isinstance(st.value, ast.Constant) and isinstance(st.value.value, str):
        return None
    tgt = val = None
    if isinstance(st, ast.Assign) and len(st.targets) == 1:
        tgt, val = st.targets[0], st.value
    elif isinstance(st, ast.AnnAssign) and st.value is not None:
        tgt, val = st.target, st.value
    if tgt is not None:
        t = ast.unparse(tgt)
        for attr, piece in pieces.items():
            if t == f"self.{attr}":
                if not _is_reset_value(piece, val):
                    fail(st, f"empty(): not a recognised empty value for {piece}")
                return piece
            # in-place zeroing of the charge array
            if piece == "PChargeArr" and t in (f"self.{attr}[:]", f"self.{attr}[...]") and ast.unparse(val) in ZERO:
                return piece
    if isinstance(st, ast.Expr) and ast.unparse(st) in ("self._array.fill(0)", "self._array.fill(0.0)") \
            and pieces.get("_array") == "PChargeArr":
        return "PChargeArr"
    fail(st, "empty(): unexpected statement")


def _cond(test: ast.expr, pieces: dict) -> str:
    if isinstance(test, ast.UnaryOp) and isinstance(test.op, ast.Not):
        c = _cond(test.operand, pieces)
        return {"CHolds": "CHoldsNot", "CHoldsNot": "CHolds"}[c.split()[0]] + " " + c.split()[1]
    t = ast.unparse(test)
    for attr, piece in pieces.items():
        if piece in NONE_PIECES or piece == "PPixel":
            if t == f"self.{attr} is None":
                return f"CHoldsNot {piece}"
            if t == f"self.{attr} is not None":
                return f"CHolds {piece}"
        if piece == "PChargeArr" and t in (f"self.{attr}.any()", f"np.any(self.{attr})", f"np.any(self.{attr} != 0)"):
            return f"CHolds {piece}"
        if piece == "PChargeFrame":
            if t in (f"self.{attr}.empty", "self.frame_empty()", f"len(self.{attr}) == 0"):
                return f"CHoldsNot {piece}"
            if t in (f"len(self.{attr}) > 0", f"len(self.{attr}) != 0"):
                return f"CHolds {piece}"
    fail(test, "empty(): unknown test (only `holds something` tests of the container's own pieces are accepted)")


def _branch(body, pieces) -> list[str]:
    out = []
    for st in body:
        if isinstance(st, ast.If):
            fail(st, "empty(): nested if")
        p = _reset_stmt(st, pieces)
        if p is not None:
            out.append(p)
    return out


def _cprog(fn: ast.FunctionDef, pieces: dict) -> list:
    """[[(cond, [piece])]]: the chains of an empty() method, in order."""
    if [a.arg for a in fn.args.args] != ["self"] or fn.args.vararg or fn.args.kwarg or fn.args.kwonlyargs:
        fail(fn, "empty() signature")
    prog = []
    for st in body_no_doc(fn):
        if isinstance(st, ast.If):
            chain, node = [], st
            while True:
                chain.append((_cond(node.test, pieces), _branch(node.body, pieces)))
                if len(node.orelse) == 1 and isinstance(node.orelse[0], ast.If):
                    node = node.orelse[0]
                    continue
                if node.orelse:
                    chain.append(("CTrue", _branch(node.orelse, pieces)))
                break
            prog.append(chain)
        elif isinstance(st, ast.Return) and st.value is None:
            fail(st, "empty(): early return")
        else:
            p = _reset_stmt(st, pieces)
            if p is not None:
                prog.append([("CTrue", [p])])
    return prog


def _class(tree: ast.Module, name: str) -> ast.ClassDef:
    c = [n for n in tree.body if isinstance(n, ast.ClassDef) and n.name == name]
    if len(c) != 1:
        fail(None, f"class {name}: found {len(c)}")
    return c[0]


def _check_init_attrs(cls: ast.ClassDef, pieces: dict, other: set) -> None:
    """The attributes the class stores on its instances -- in __init__ or in any other method -- are the known ones:
    a new data attribute would be a piece of state the model does not carry (and empty() might not reset)."""
    inits = [n for n in cls.body if isinstance(n, ast.FunctionDef) and n.name == "__init__"]
    if len(inits) != 1:
        fail(cls, f"{cls.name}.__init__: found {len(inits)}")
    # assignments that go through a property setter of the class (self.array = ..., self.array_3d = ...)
    props = {n.name for n in cls.body if isinstance(n, ast.FunctionDef)
             and any(ast.unparse(d) in ("property", f"{n.name}.setter") for d in n.decorator_list)} | {"array"}
    for n in ast.walk(cls):
        tg = []
        if isinstance(n, ast.Assign):
            tg = n.targets
        elif isinstance(n, (ast.AnnAssign, ast.AugAssign)):
            tg = [n.target]
        elif isinstance(n, ast.Call) and ast.unparse(n.func) in ("setattr", "object.__setattr__") and n.args \
                and ast.unparse(n.args[0]) == "self":
            fail(n, f"{cls.name}: setattr on self")
        for t in tg:
            for t1 in (t.elts if isinstance(t, (ast.Tuple, ast.List)) else [t]):
                if isinstance(t1, ast.Attribute) and isinstance(t1.value, ast.Name) and t1.value.id == "self":
                    if t1.attr not in pieces and t1.attr not in other and t1.attr not in props:
                        fail(n, f"{cls.name} stores an attribute the model does not know")


def _container_prog(repo: Path, cname: str) -> list:
    rel, pieces, other = CONTAINERS[cname]
    cls = _class(parse(repo, rel), cname)
    own = [n for n in cls.body if isinstance(n, ast.FunctionDef) and n.name == "empty"]
    if cname in ("Pixel", "Signal", "Image"):
        if [ast.unparse(b) for b in cls.bases] != ["ArrayBase"]:
            fail(cls, f"{cname} must derive from ArrayBase only")
        inits = [n for n in cls.body if isinstance(n, ast.FunctionDef) and n.name == "__init__"]
        if len(inits) != 1 or [ast.unparse(x) for x in body_no_doc(_norm(parse(repo, rel), inits[0], cls))] not in (
                ["super().__init__(shape=(geo.row, geo.col))"], ["super().__init__((geo.row, geo.col))"]):
            fail(cls, f"{cname}.__init__ must only call ArrayBase.__init__")
        brel, bpieces, bother = CONTAINERS["ArrayBase"]
        base = _class(parse(repo, brel), "ArrayBase")
        _check_init_attrs(base, bpieces, bother)
        _check_init_attrs(cls, {"_array": pieces["_array"]}, bother)
        if not own:
            own = [n for n in base.body if isinstance(n, ast.FunctionDef) and n.name == "empty"]
    else:
        if cls.bases:
            fail(cls, f"{cname} must not have a base class")
        _check_init_attrs(cls, pieces, other)
    if len(own) != 1:
        fail(cls, f"{cname}.empty: found {len(own)}")
    if own[0] in cls.body:
        return _cprog(_norm(parse(repo, rel), own[0], cls), pieces)
    return _cprog(_norm(parse(repo, brel), own[0], base), pieces)


def _scene_fresh(repo: Path) -> list:
    """`self.scene = Scene()`: a new object; its constructor must create the one data attribute, empty."""
    rel, pieces, other = CONTAINERS["Scene"]
    cls = _class(parse(repo, rel), "Scene")
    _check_init_attrs(cls, pieces, other)
    init = [n for n in cls.body if isinstance(n, ast.FunctionDef) and n.name == "__init__"][0]
    if [a.arg for a in init.args.args] != ["self"]:
        fail(init, "Scene.__init__ signature")
    init = _norm(parse(repo, rel), init, cls)
    got = [_reset_stmt(st, pieces) for st in body_no_doc(init)]
    if [g for g in got if g] != ["PScene"]:
        fail(init, "Scene.__init__ must create an empty _source")
    return [[("CTrue", ["PScene"])]]


def _read_stores(repo: Path) -> bool:
    """Does reading the property Charge.array store the array derived from the particles into _array?"""
    rel, _, _ = CONTAINERS["Charge"]
    cls = _class(parse(repo, rel), "Charge")
    fns = [n for n in cls.body if isinstance(n, ast.FunctionDef) and n.name == "array"
           and any(ast.unparse(d) == "property" for d in n.decorator_list)]
    if len(fns) != 1:
        fail(cls, f"Charge.array property: found {len(fns)}")
    body = [ast.unparse(st) for st in body_no_doc(_norm(parse(repo, rel), fns[0], cls))]
    if body == ["if not self._frame.empty:\n    self._array = self.convert_df_to_array()", "return self._array"]:
        return True
    if body == ["if not self._frame.empty:\n    return self.convert_df_to_array()", "return self._array"]:
        return False
    fail(fns[0], "Charge.array: unexpected shape")


DETECTOR_SUBCLASSES = {"CCD": "pyxel/detectors/ccd/ccd.py", "CMOS": "pyxel/detectors/cmos/cmos.py",
                       "MKID": "pyxel/detectors/mkid/mkid.py", "APD": "pyxel/detectors/apd/apd.py"}


def _check_subclass_empty(repo: Path) -> None:
    for cname, rel in DETECTOR_SUBCLASSES.items():
        cls = _class(parse(repo, rel), cname)
        if [ast.unparse(b) for b in cls.bases] != ["Detector"]:
            fail(cls, f"{cname} must derive from Detector")
        own = [n for n in cls.body if isinstance(n, ast.FunctionDef) and n.name == "empty"]
        if not own:
            continue
        if len(own) != 1 or [a.arg for a in own[0].args.args] != ["self", "reset"]:
            fail(cls, f"{cname}.empty signature")
        body = body_no_doc(own[0])
        if not body or ast.unparse(body[0]) not in ("super().empty(reset)", "super().empty(reset=reset)"):
            fail(own[0], f"{cname}.empty must start with super().empty(reset)")
        for st in body[1:]:
            for n in ast.walk(st):
                if isinstance(n, ast.Attribute) and isinstance(n.value, ast.Name) and n.value.id == "self" and \
                        n.attr.lstrip("_") in BUCKETS:
                    fail(st, f"{cname}.empty touches a container of the base detector")
                if isinstance(n, ast.Raise):
                    fail(st, f"{cname}.empty: raises")


# ------------------------------------------------------------------------------------------ the run loop

CLOCK_ATTRS = {"time": 0, "time_step": 1, "pipeline_count": 2}


def _flatten_with(fn):
    """Statements of the function body with the bodies of top-level `with` blocks spliced in."""
    out = []
    for st in body_no_doc(fn):
        if isinstance(st, ast.With):
            out += list(st.body)
        else:
            out.append(st)
    return out


def _reset_policy(arg, loop_body, call_stmt) -> str:
    """Which readouts make the per-step detector.empty(<arg>) a full reset."""
    ND = "detector.non_destructive_readout"
    alt = (ND, "detector.readout_properties.non_destructive")
    if arg is None:
        return "LAlways"
    while isinstance(arg, ast.Call) and ast.unparse(arg.func) == "bool" and len(arg.args) == 1 and not arg.keywords:
        arg = arg.args[0]
    t = ast.unparse(arg)
    if t in ("True", "reset=True"):
        return "LAlways"
    if t == "False":
        return "LNever"
    if t in tuple(f"not {a}" for a in alt):
        return "LIfDestructive"
    if t in alt:
        return "LIfNonDestructive"
    if isinstance(arg, ast.Name):
        # the one definition of the local variable, placed in the loop body before the call
        defs = []
        for st in loop_body:
            if st is call_stmt:
                break
            if isinstance(st, (ast.Assign, ast.AnnAssign)):
                tg = st.targets if isinstance(st, ast.Assign) else [st.target]
                if any(ast.unparse(x) == arg.id for x in tg) and st.value is not None:
                    defs.append(_reset_policy(st.value, [], None))
            elif isinstance(st, ast.If) and any(isinstance(n, ast.Name) and n.id == arg.id and isinstance(n.ctx, ast.Store)
                                                for n in ast.walk(st)):
                # if <nd>: v = False  else: v = True   (or the other way round)
                ok = (ast.unparse(st.test) in alt and len(st.body) == 1 and len(st.orelse) == 1
                      and all(isinstance(b, ast.Assign) and ast.unparse(b.targets[0]) == arg.id
                              and isinstance(b.value, ast.Constant) and isinstance(b.value.value, bool)
                              for b in (st.body[0], st.orelse[0])))
                if not ok:
                    fail(st, "run loop: unexpected definition of the reset flag")
                a, b = st.body[0].value.value, st.orelse[0].value.value
                defs.append({(False, True): "LIfDestructive", (True, False): "LIfNonDestructive",
                             (True, True): "LAlways", (False, False): "LNever"}[(a, b)])
        if len(defs) != 1:
            fail(arg, f"run loop: {len(defs)} definitions of the reset flag before detector.empty")
        return defs[0]
    fail(arg, "run loop: unknown argument of the per-step detector.empty")


def loop_shape(fn: ast.FunctionDef) -> tuple[bool, str]:
    """(is there a full detector.empty() between set_readout and the loop, reset policy of the per-step empty).
    The loop must iterate enumerate(zip(rp.times, rp.steps)) and store time / time_step / pipeline_count from the loop
    variables, then call detector.empty(..), all before processor.run_pipeline."""
    top = _flatten_with(fn)
    loops = [k for k, st in enumerate(top) if isinstance(st, (ast.For, ast.While))]
    if len(loops) != 1 or not isinstance(top[loops[0]], ast.For):
        fail(fn, f"{fn.name}: expected exactly one for-loop over the readouts")
    k = loops[0]
    loop = top[k]
    sr = [j for j, st in enumerate(top[:k]) if isinstance(st, ast.Expr) and isinstance(st.value, ast.Call)
          and ast.unparse(st.value.func) == "detector.set_readout"]
    if len(sr) != 1:
        fail(fn, f"{fn.name}: set_readout before the loop")
    init_reset = False
    for st in top[sr[0] + 1:k]:
        for n in ast.walk(st):
            if isinstance(n, ast.Call) and ast.unparse(n.func) == "detector.empty":
                if not (isinstance(st, ast.Expr) and st.value is n) or ast.unparse(n) not in (
                        "detector.empty()", "detector.empty(True)", "detector.empty(reset=True)"):
                    fail(st, f"{fn.name}: the reset before the loop must be the plain statement detector.empty()")
                init_reset = True
    for st in top[:sr[0]]:
        if any(isinstance(n, ast.Call) and ast.unparse(n.func) == "detector.empty" for n in ast.walk(st)):
            fail(st, f"{fn.name}: detector.empty before set_readout")
    # header
    tgt = ast.unparse(loop.target)
    it = loop.iter
    names = None
    if (isinstance(loop.target, ast.Tuple) and len(loop.target.elts) == 2 and isinstance(loop.target.elts[0], ast.Name)
            and isinstance(loop.target.elts[1], ast.Tuple) and len(loop.target.elts[1].elts) == 2
            and all(isinstance(e, ast.Name) for e in loop.target.elts[1].elts)):
        names = (loop.target.elts[1].elts[0].id, loop.target.elts[1].elts[1].id, loop.target.elts[0].id)
    ok_iter = (isinstance(it, ast.Call) and ast.unparse(it.func) == "enumerate" and len(it.args) == 1 and not it.keywords
               and isinstance(it.args[0], ast.Call) and ast.unparse(it.args[0].func) == "zip"
               and [ast.unparse(a) for a in it.args[0].args] == ["detector.readout_properties.times",
                                                                 "detector.readout_properties.steps"]
               and all(kw.arg == "strict" for kw in it.args[0].keywords))
    if names is None or not ok_iter or loop.orelse:
        fail(loop, f"{fn.name}: the loop must be `for i, (time, step) in enumerate(zip(rp.times, rp.steps))`: {tgt}")
    # body: the three stores, the per-step empty, then the pipeline
    body = list(loop.body)
    run = [j for j, st in enumerate(body) if any(isinstance(n, ast.Call) and ast.unparse(n.func) == "processor.run_pipeline"
                                                  for n in ast.walk(st))]
    if len(run) != 1 or not isinstance(body[run[0]], ast.Expr):
        fail(loop, f"{fn.name}: processor.run_pipeline must be one plain statement of the loop body")
    stores, empties = {}, []
    for st in body[:run[0]]:
        if isinstance(st, ast.Assign) and len(st.targets) == 1:
            t = ast.unparse(st.targets[0])
            for pre in ("detector.readout_properties.", "detector."):
                if t.startswith(pre) and t[len(pre):] in CLOCK_ATTRS and "." not in t[len(pre):]:
                    a = t[len(pre):]
                    if a in stores or ast.unparse(st.value) != names[CLOCK_ATTRS[a]]:
                        fail(st, f"{fn.name}: clock store")
                    stores[a] = True
                    break
            else:
                if t.startswith("detector."):
                    fail(st, f"{fn.name}: unexpected store into the detector before the models run")
            continue
        calls = [n for n in ast.walk(st) if isinstance(n, ast.Call) and ast.unparse(n.func).startswith("detector.")]
        for n in calls:
            f = ast.unparse(n.func)
            if f == "detector.empty":
                if not (isinstance(st, ast.Expr) and st.value is n) or len(n.args) + len(n.keywords) > 1 or \
                        any(kw.arg != "reset" for kw in n.keywords):
                    fail(st, f"{fn.name}: the per-step detector.empty must be one plain statement")
                arg = n.args[0] if n.args else (n.keywords[0].value if n.keywords else None)
                empties.append(_reset_policy(arg, body, st))
            elif not f.startswith("detector.readout_properties") and f not in ("detector.non_destructive_readout",):
                fail(st, f"{fn.name}: unexpected call on the detector before the models run")
            elif f.startswith("detector.readout_properties."):
                fail(st, f"{fn.name}: unexpected call on the readout properties before the models run")
    if set(stores) != set(CLOCK_ATTRS):
        fail(loop, f"{fn.name}: the loop must store time, time_step and pipeline_count from its loop variables")
    if len(empties) != 1:
        fail(loop, f"{fn.name}: {len(empties)} per-step detector.empty calls before the models run")
    for st in body[run[0] + 1:]:
        for n in ast.walk(st):
            if isinstance(n, ast.Call) and ast.unparse(n.func) in ("detector.empty", "detector.set_readout"):
                fail(st, f"{fn.name}: detector.empty / set_readout after the models of a step")
            if isinstance(n, ast.Attribute) and isinstance(n.ctx, ast.Store) and ast.unparse(n).startswith("detector.") \
                    and ast.unparse(n).split(".")[-1] in CLOCK_ATTRS:
                fail(st, f"{fn.name}: clock store after the models of a step")
    return init_reset, empties[0]



SR_PARAMS = ["times", "start_time", "non_destructive"]


def _wired(call: ast.Call, exprs: list[str]) -> bool:
    """The call passes exactly exprs[k] for parameter SR_PARAMS[k] (positionally or by keyword)."""
    got = {}
    if len(call.args) > len(SR_PARAMS) or any(isinstance(a, ast.Starred) for a in call.args):
        return False
    for k, a in enumerate(call.args):
        got[SR_PARAMS[k]] = ast.unparse(a)
    for kw in call.keywords:
        if kw.arg is None or kw.arg in got or kw.arg not in SR_PARAMS:
            return False
        got[kw.arg] = ast.unparse(kw.value)
    return got == dict(zip(SR_PARAMS, exprs))


def _is_new_rp_store(st: ast.stmt) -> bool:
    if not _assigns_to(st, "self._readout_properties"):
        return False
    v = st.value
    return (isinstance(v, ast.Call) and ast.unparse(v.func) == "ReadoutProperties" and _wired(v, SR_PARAMS))


def _set_readout_policy(fn: ast.FunctionDef) -> str:
    if [a.arg for a in fn.args.args] != ["self"] + SR_PARAMS or fn.args.vararg or fn.args.kwarg or fn.args.kwonlyargs:
        fail(fn, "Detector.set_readout signature")
    body = body_no_doc(fn)
    if len(body) == 1 and _is_new_rp_store(body[0]):
        return "SRAlwaysNew"
    if (len(body) == 1 and isinstance(body[0], ast.If) and not body[0].orelse
            and ast.unparse(body[0].test) == "self._readout_properties is None"
            and len(body[0].body) == 1 and _is_new_rp_store(body[0].body[0])):
        return "SRKeepExisting"
    fail(body[0] if body else fn, "Detector.set_readout must be the single store of a new ReadoutProperties built "
                                  "from its three arguments")


def _check_run_pipeline_call(fn: ast.FunctionDef) -> None:
    calls = [n for n in ast.walk(fn) if isinstance(n, ast.Call) and isinstance(n.func, ast.Attribute)
             and n.func.attr == "set_readout"]
    if len(calls) != 1:
        fail(fn, f"run_pipeline: {len(calls)} calls of set_readout")
    withs = [st for st in body_no_doc(fn) if isinstance(st, ast.With)]
    top = [st for w in withs for st in w.body] + body_no_doc(fn)
    site = [k for k, st in enumerate(top) if isinstance(st, ast.Expr) and st.value is calls[0]]
    if not site:
        fail(calls[0], "run_pipeline: set_readout must be an unconditional statement of the function body")
    loops = [k for k, st in enumerate(top) if isinstance(st, (ast.For, ast.While))]
    if not loops or site[0] > loops[0]:
        fail(calls[0], "run_pipeline: set_readout must precede the readout loop")
    if ast.unparse(calls[0].func.value) != "detector" or not _wired(
            calls[0], ["readout.times", "readout.start_time", "readout.non_destructive"]):
        fail(calls[0], "run_pipeline: set_readout must be given readout.times / .start_time / .non_destructive")


def extract(repo: Path) -> dict:
    t_ro = parse(repo, "pyxel/exposure/readout.py")
    t_rp = parse(repo, "pyxel/detectors/readout_properties.py")
    t_det = parse(repo, "pyxel/detectors/detector.py")

    NORM_LOG.clear()
    _REPO[:] = [repo]
    c_ro = _cls_of(t_ro, "Readout")
    g_ndarray, g_ctor = _ctor_guards(_norm(t_ro, find_func(t_ro, "__init__", "Readout"), c_ro))

    f = _setter(t_ro, "Readout", "times")
    if len(f.args.args) != 2 or f.args.args[0].arg != "self":
        fail(f, "times setter signature")
    V = f.args.args[1].arg
    f = _norm(t_ro, f, c_ro)
    body = body_no_doc(f)
    # first statement: the value -> array conversion (scalar wrapped into a 1-element array), stored in a local X
    X = None
    if body and not _contains_raise(body[0]):
        st = body[0]
        if isinstance(st, ast.Assign) and len(st.targets) == 1 and isinstance(st.targets[0], ast.Name):
            v = st.value
            if (isinstance(v, ast.IfExp) and ast.unparse(v.test) == f"isinstance({V}, Number)"
                    and ast.unparse(v.body) in (f"np.array([{V}])", f"np.array([{V}], dtype=float)")
                    and ast.unparse(v.orelse) in (f"np.array({V})", f"np.array({V}, dtype=float)", f"np.asarray({V})")):
                X = st.targets[0].id
    if X is None:
        fail(f, "times setter must start with the scalar / sequence conversion")
    g_set_times = _collect(body[1:], X, "self._start_time", lambda st: _assigns_to(st, "self._times")
                           and ast.unparse(st.value) == X)

    f = _setter(t_ro, "Readout", "start_time")
    if len(f.args.args) != 2 or f.args.args[0].arg != "self":
        fail(f, "start_time setter signature")
    V = f.args.args[1].arg
    f = _norm(t_ro, f, c_ro)
    g_set_start = _collect(body_no_doc(f), "self._times", V, lambda st: _assigns_to(st, "self._start_time")
                           and ast.unparse(st.value) == V)

    f = find_func(t_rp, "__init__", "ReadoutProperties")
    if [a.arg for a in f.args.args] != ["self", "times", "start_time", "non_destructive"]:
        fail(f, "ReadoutProperties.__init__ signature")
    f = _norm(t_rp, f, _cls_of(t_rp, "ReadoutProperties"))
    body = body_no_doc(f)
    if not (body and isinstance(body[0], ast.Assign) and len(body[0].targets) == 1
            and isinstance(body[0].targets[0], ast.Name)
            and ast.unparse(body[0].value) in ("np.array(times, dtype=float)", "np.asarray(times, dtype=float)")):
        fail(f, "ReadoutProperties.__init__ must start with <local> = np.array(times, dtype=float)")
    X = body[0].targets[0].id
    g_rp = _collect(body[1:], X, "start_time", lambda st: _calls(st, "calculate_steps"))
    # nothing after the steps computation may be validation; the remaining statements are plain stores
    c_det = _cls_of(t_det, "Detector")
    always, if_reset = _empty_table(_norm(t_det, find_func(t_det, "empty", "Detector"), c_det))
    progs = {}
    for b, cname in BUCKET_CLASS.items():
        if b == "Scene" and scene_fresh:
            progs[b] = _scene_fresh(repo)
        else:
            progs[b] = _container_prog(repo, cname)
    read_stores = _read_stores(repo)
    _check_subclass_empty(repo)
    sr = _set_readout_policy(_norm(t_det, find_func(t_det, "set_readout", "Detector"), c_det))
    t_exp = parse(repo, "pyxel/exposure/exposure.py")
    # normal form of the two loops: the local `detector = processor.detector` (whatever it is called) is substituted
    # away by the normaliser and written back as the recognisers' vocabulary `detector`
    ab = {"processor.detector": "detector"}
    f_new = _norm(t_exp, find_func(t_exp, "run_pipeline"), abbreviate=ab)
    f_old = _norm(t_exp, find_func(t_exp, "_run_exposure_pipeline_deprecated"), abbreviate=ab)
    _check_run_pipeline_call(f_new)
    init_reset, loop_reset = loop_shape(f_new)
    old_same = loop_shape(f_old) == (init_reset, loop_reset)
    return dict(g_ndarray=g_ndarray, g_ctor=g_ctor, g_set_times=g_set_times, g_set_start=g_set_start, g_rp=g_rp,
                e_always=always, e_if_reset=if_reset, progs=progs, read_stores=read_stores, sr=sr,
                init_reset=init_reset, loop_reset=loop_reset, old_same=old_same)


def _lst(xs) -> str:
    xs = list(xs)
    return "[" + "; ".join(xs) + "]" if xs else "nil"


def _cprog_txt(prog) -> str:
    return _lst(_lst(f"({c}, {_lst(ps)})" for c, ps in chain) for chain in prog)


def render(t: dict) -> str:
    progs = "".join(f"     e_{b.lower()} := {_cprog_txt(t['progs'][b])};\n" for b in BUCKET_CLASS)
    return (HEADER +
            "From Coq Require Import List.\nFrom PyxelV Require Import Model.Exposure.\nImport ListNotations.\n"
            "Definition src_guards : guard_table :=\n"
            f"  {{| g_ndarray := {'true' if t['g_ndarray'] else 'false'};\n"
            f"     g_ctor := {_lst(t['g_ctor'])};\n"
            f"     g_set_times := {_lst(t['g_set_times'])};\n"
            f"     g_set_start := {_lst(t['g_set_start'])};\n"
            f"     g_rp := {_lst(t['g_rp'])} |}}.\n"
            "Definition src_empty : empty_table :=\n"
            f"  {{| e_always := {_lst(t['e_always'])}; e_if_reset := {_lst(t['e_if_reset'])};\n"
            f"{progs}"
            f"     e_read_stores := {'true' if t['read_stores'] else 'false'};\n"
            f"     e_init_reset := {'true' if t['init_reset'] else 'false'}; e_loop_reset := {t['loop_reset']}; "
            f"e_old_loop_same := {'true' if t['old_same'] else 'false'} |}}.\n"
            f"Definition src_set_readout : sr_policy := {t['sr']}.\n")


def translate(repo: Path) -> str:
    return render(extract(repo))


# the last accepted shape (the unchanged tree); only used to keep a model for the failing-input search
FALLBACK = render(dict(
    g_ndarray=True,
    g_ctor=["GProvided", "GFirstNonZero", "GStartLtFirst", "GIncreasing"],
    g_set_times=["GNdim1", "GNonEmpty", "GFirstNonZero", "GStartLtFirst"],
    g_set_start=["GStartLtFirst"],
    g_rp=["GNdim1", "GFirstNonZero", "GStartLtFirst", "GIncreasing"],
    e_always=["Scene", "Photon", "Charge", "Signal", "Image"], e_if_reset=["Pixel"],
    progs=dict(Scene=[[("CTrue", ["PScene"])]], Photon=[[("CTrue", ["PPhoton"])]],
               Charge=[[("CHolds PChargeFrame", ["PChargeFrame"])], [("CTrue", ["PChargeArr"])]],
               Pixel=[[("CTrue", ["PPixel"])]], Signal=[[("CTrue", ["PSignal"])]], Image=[[("CTrue", ["PImage"])]]),
    read_stores=True, sr="SRAlwaysNew", init_reset=True, loop_reset="LIfDestructive", old_same=True))
