"""C07 translator — general, behaviour-preserving normalisations applied BEFORE rows are extracted (round 2c).

The row extractors of translator/c07.py no longer read local variable names, statement layout or helper boundaries.
They anchor on API calls / parameters / attribute stores and compare RESOLVED expressions.  This module provides

 normalise(fn, mod, cls, keep)   a copy of the function in canonical statement form
   (a) calls to private helpers of the same module / methods of the same class (`x = _h(..)`, `return _h(..)`, `_h(..)`)
       are inlined (parameters bound, locals renamed apart, single exit; generators / *args / nested defs / returns inside
       loops or try: left as calls = the rows fail closed when they need to look inside)
   (c) guard clauses (`if c: return/raise/continue/break` + rest) == `if c: .. else: rest`; `if not c` / `is not` / `!=` /
       `not in` with an else == the positive test with swapped branches
   (e) `match` on literals / dotted names == if/elif on `==` (wildcard == else)
   (h) docstrings, `pass`, imports, bare annotations, asserts, logging / warnings calls are dropped; `x: T = v` == `x = v`
   (i) if/else assigning ONE name (or self.attr) in both branches == conditional expression; `x = A` directly followed by
       `if c: x = B` == `x = B if c else A`; `try: B except ..: H else: return e` == `try: B; return e except ..: H`
   (f) `d = {}` + `for t in it: d[k] = v | d.update({k: v})` == dict comprehension; `l = []` + append == list
       comprehension (optional `if`); `{k: v for k, v in it}` == `dict(it)`; `zip(count(), x)` == `enumerate(x)`;
       `list(map(f, x))` == `[f(v) for v in x]`; `zip(.., strict=..)` == `zip(..)`
   (d) `a <= x <= b` == `a <= x and x <= b` for a name / attribute / constant in the middle
 Resolver(fn, mod).resolve(expr)  substitutes (b) single-assignment local aliases and named intermediate results (also
       `self.attr` assigned once in the function) and (g) names bound by ONE module-level assignment.  A name is only
       substituted when exactly one binding can reach the use (bindings in the other branch of an enclosing `if` do not
       count), the binding precedes and dominates the use, nothing the bound expression mentions is re-bound or stored to
       between binding and use, and the bound object is not mutated afterwards (`x[..] = `, `x.append(..)`, ...).  So an
       alias taken BEFORE a reassignment is not followed: the row then does not have the expected shape (fail closed).
 match(pattern, node)            structural matching with metavariables (`_X`), `**_K` / `*_A` = "further arguments"

Anything unexpected inside this module raises TranslationError (fail closed), never another exception.
"""
from __future__ import annotations

import ast
import copy
import re

from harness.core import TranslationError

from .common import fail

LOG_ROOTS = ("logging.", "log.", "logger.", "warnings.", "self._log.", "self.log.", "self._logger.", "self.logger.")
MUTATORS = {"append", "extend", "update", "add", "insert", "pop", "remove", "clear", "setdefault", "popitem", "sort",
            "reverse", "discard", "__setitem__", "move_to_end", "push_back"}
TERMINAL = (ast.Return, ast.Raise, ast.Continue, ast.Break)
MAX_DEPTH = 3


def u(node) -> str:
    return ast.unparse(node) if node is not None else ""


def target_key(t):
    """text of a Name or of `self.attr` (the two kinds of assignment target that are followed), else None"""
    if isinstance(t, ast.Name):
        return t.id
    if isinstance(t, ast.Attribute) and isinstance(t.value, ast.Name) and t.value.id in ("self", "cls"):
        return f"{t.value.id}.{t.attr}"
    return None


class Mod:
    """one parsed module: its functions, classes and names bound by exactly one module-level assignment"""

    def __init__(self, tree: ast.Module, repo=None, rel: str | None = None):
        self.tree, self.repo, self.rel = tree, repo, rel
        # local name -> (level, module, original name) of every `from .. import ..` (module level or inside a function)
        self.imports: dict = {}
        for n in ast.walk(tree):
            if isinstance(n, ast.ImportFrom):
                for a in n.names:
                    self.imports.setdefault(a.asname or a.name, set()).add((n.level, n.module or "", a.name))
        self._others: dict = {}
        self.funcs = {n.name: n for n in tree.body if isinstance(n, ast.FunctionDef)}
        self.classes = {n.name: n for n in tree.body if isinstance(n, ast.ClassDef)}
        seen: dict = {}
        for st in tree.body:
            if isinstance(st, ast.Assign) and len(st.targets) == 1 and isinstance(st.targets[0], ast.Name):
                seen.setdefault(st.targets[0].id, []).append(st.value)
            elif isinstance(st, ast.AnnAssign) and st.value is not None and isinstance(st.target, ast.Name):
                seen.setdefault(st.target.id, []).append(st.value)
            elif isinstance(st, (ast.Import, ast.ImportFrom)):
                for a in st.names:
                    seen.setdefault((a.asname or a.name).split(".")[0], []).extend([None, None])
            elif isinstance(st, (ast.If, ast.Try, ast.For, ast.While, ast.With)):
                for n in ast.walk(st):
                    if isinstance(n, ast.Name) and isinstance(n.ctx, ast.Store):
                        seen.setdefault(n.id, []).extend([None, None])
                    if isinstance(n, ast.alias):
                        seen.setdefault((n.asname or n.name).split(".")[0], []).extend([None, None])
        self.consts = {k: v[0] for k, v in seen.items()
                       if len(v) == 1 and v[0] is not None and k not in self.funcs and k not in self.classes}

    def module_level_names(self) -> set:
        out = set(self.funcs) | set(self.classes)
        for st in self.tree.body:
            for n in ast.walk(st) if not isinstance(st, (ast.FunctionDef, ast.ClassDef)) else []:
                if isinstance(n, ast.Name) and isinstance(n.ctx, ast.Store):
                    out.add(n.id)
                if isinstance(n, ast.alias):
                    out.add((n.asname or n.name).split(".")[0])
        return out

    def imported_function(self, name: str):
        """(Mod of the defining module, FunctionDef) of a function imported with `from <module of this package> import
        name`, when that module is a file of the tree under translation; else None"""
        if self.repo is None or self.rel is None or len(self.imports.get(name, ())) != 1:
            return None
        level, module, orig = next(iter(self.imports[name]))
        parts = module.split(".") if module else []
        if level:
            base = list(self.rel.split("/")[:-1])
            base = base[:len(base) - (level - 1)] if level > 1 else base
            parts = base + parts
        for cand in ("/".join(parts) + ".py", "/".join(parts) + "/__init__.py"):
            if cand == self.rel or not parts:
                continue
            if cand not in self._others:
                f = self.repo / cand
                try:
                    self._others[cand] = Mod(ast.parse(f.read_text()), self.repo, cand) if f.is_file() else None
                except SyntaxError:
                    self._others[cand] = None
            other = self._others[cand]
            if other is not None and orig in other.funcs:
                return other, other.funcs[orig]
        return None

    def method(self, cls: str | None, name: str):
        if cls is None or cls not in self.classes:
            return None
        c = [n for n in self.classes[cls].body if isinstance(n, ast.FunctionDef) and n.name == name]
        return c[0] if len(c) == 1 else None


# ------------------------------------------------------------------------------------------ statement passes


def own_nodes(node):
    """ast.walk that does not enter nested function / class / lambda bodies"""
    todo = [node]
    while todo:
        n = todo.pop()
        yield n
        for c in ast.iter_child_nodes(n):
            if isinstance(c, (ast.FunctionDef, ast.AsyncFunctionDef, ast.ClassDef, ast.Lambda)):
                continue
            todo.append(c)


def blocks_of(st):
    """(owner, field) of every statement list directly inside st (not inside nested defs)"""
    out = []
    if isinstance(st, (ast.FunctionDef, ast.AsyncFunctionDef, ast.ClassDef)):
        return out
    for f in ("body", "orelse", "finalbody"):
        if isinstance(getattr(st, f, None), list) and getattr(st, f) is not None and not isinstance(st, ast.IfExp):
            out.append((st, f))
    if isinstance(st, ast.Try):
        for h in st.handlers:
            out.append((h, "body"))
    if isinstance(st, ast.Match):
        for c in st.cases:
            out.append((c, "body"))
    return out


def map_blocks(stmts, f):
    """apply f to every statement list, innermost first"""
    for st in stmts:
        for owner, field in blocks_of(st):
            setattr(owner, field, map_blocks(getattr(owner, field), f))
    return f(stmts)


def is_log_call(st) -> bool:
    if not (isinstance(st, ast.Expr) and isinstance(st.value, ast.Call)):
        return False
    f = u(st.value.func)
    return f.startswith(LOG_ROOTS) or f in ("print",)


def swap_test(test):
    """positive form of a negated test, or None"""
    if isinstance(test, ast.UnaryOp) and isinstance(test.op, ast.Not):
        return test.operand
    if isinstance(test, ast.Compare) and len(test.ops) == 1:
        flip = {ast.IsNot: ast.Is, ast.NotEq: ast.Eq, ast.NotIn: ast.In}.get(type(test.ops[0]))
        if flip is not None:
            return ast.Compare(left=test.left, ops=[flip()], comparators=test.comparators)
    return None


def match_to_if(st: ast.Match):
    """match on literals / dotted names / `|` of them, wildcard last -> if/elif chain; else None"""
    subj = st.subject
    if not isinstance(subj, (ast.Name, ast.Attribute)):
        return None

    def test_of(p):
        if isinstance(p, ast.MatchValue):
            return ast.Compare(left=copy.deepcopy(subj), ops=[ast.Eq()], comparators=[p.value])
        if isinstance(p, ast.MatchSingleton):
            return ast.Compare(left=copy.deepcopy(subj), ops=[ast.Is()], comparators=[ast.Constant(p.value)])
        if isinstance(p, ast.MatchOr):
            ts = [test_of(q) for q in p.patterns]
            return None if any(t is None for t in ts) else ast.BoolOp(op=ast.Or(), values=ts)
        return None

    chain = []
    for k, c in enumerate(st.cases):
        if c.guard is not None:
            return None
        if isinstance(c.pattern, ast.MatchAs) and c.pattern.pattern is None and c.pattern.name is None:
            if k != len(st.cases) - 1:
                return None
            chain.append((None, c.body))
        else:
            t = test_of(c.pattern)
            if t is None:
                return None
            chain.append((t, c.body))
    node = None
    for t, body in reversed(chain):
        if t is None:
            node = body
        else:
            node = [ast.If(test=t, body=body, orelse=node or [])]
    return node


class _Cx:
    def __init__(self, mod, cls, keep, depth, stack, counter):
        self.mod, self.cls, self.keep, self.depth, self.stack, self.counter = mod, cls, set(keep), depth, stack, counter


def phase_a(stmts, cx: _Cx):
    """cleaning, match -> if, try/else, helper inlining"""
    out = []
    for st in stmts:
        if isinstance(st, (ast.Pass, ast.Import, ast.ImportFrom, ast.Assert)):
            continue
        if isinstance(st, ast.Expr) and isinstance(st.value, ast.Constant):
            continue
        if is_log_call(st):
            continue
        if isinstance(st, ast.AnnAssign):
            if st.value is None:
                continue
            st = ast.Assign(targets=[st.target], value=st.value)
        if isinstance(st, ast.Match):
            chain = match_to_if(st)
            if chain is not None:
                out += chain
                continue
        if isinstance(st, ast.Try) and st.orelse and len(st.orelse) == 1 and isinstance(st.orelse[0], ast.Return) \
                and not st.finalbody and not any(isinstance(n, ast.Call) for n in ast.walk(st.orelse[0])):
            st = ast.Try(body=st.body + st.orelse, handlers=st.handlers, orelse=[], finalbody=[])
        inl = inline_stmt(st, cx)
        if inl is not None:
            out += inl
            continue
        out.append(st)
    return out


def phase_b(stmts):
    """guard clauses -> if/else (right to left), negated tests with an else -> positive test, branches swapped"""
    stmts = list(stmts)
    for i in range(len(stmts) - 1, -1, -1):
        st = stmts[i]
        if isinstance(st, ast.If):
            if not st.orelse and st.body and isinstance(st.body[-1], TERMINAL) and i + 1 < len(stmts):
                st.orelse = stmts[i + 1:]
                del stmts[i + 1:]
            if st.orelse:
                pos = swap_test(st.test)
                if pos is not None:
                    st.test, st.body, st.orelse = pos, st.orelse, st.body
    return stmts


def _strip_tail_continue(block):
    """a `continue` that ends a loop body (also at the end of its last if/else) does nothing"""
    if not block:
        return block
    last = block[-1]
    if isinstance(last, ast.Continue):
        return block[:-1] or [ast.Pass()]
    if isinstance(last, ast.If):
        last.body = _strip_tail_continue(last.body)
        last.orelse = [x for x in _strip_tail_continue(last.orelse) if not isinstance(x, ast.Pass)]
        if all(isinstance(x, ast.Pass) for x in last.body):
            if not last.orelse:
                return block[:-1] + ([] if not any(isinstance(n, ast.Call) for n in ast.walk(last.test)) else [ast.Expr(value=last.test)]) \
                    or [ast.Pass()]
            last.test, last.body, last.orelse = ast.UnaryOp(op=ast.Not(), operand=last.test), last.orelse, []
    return block


def phase_b2(stmts):
    for st in stmts:
        if isinstance(st, (ast.For, ast.While, ast.AsyncFor)):
            st.body = _strip_tail_continue(st.body)
    return stmts


def _single_store(block):
    """block == [key = value] -> (key, target node, value)"""
    if len(block) == 1 and isinstance(block[0], ast.Assign) and len(block[0].targets) == 1:
        k = target_key(block[0].targets[0])
        if k is not None:
            return k, block[0].targets[0], block[0].value
    return None


def _is_simple_const(v) -> bool:
    return isinstance(v, (ast.Constant, ast.Name)) or (isinstance(v, (ast.Tuple, ast.List, ast.Dict)) and not ast.dump(v).count("Call"))


def _mentions(node, key: str) -> bool:
    return any(target_key(n) == key for n in ast.walk(node) if isinstance(n, (ast.Name, ast.Attribute)))


def _empty_container(v):
    if isinstance(v, ast.Dict) and not v.keys:
        return "dict"
    if isinstance(v, ast.List) and not v.elts:
        return "list"
    if isinstance(v, ast.Call) and not v.args and not v.keywords and u(v.func) in ("dict", "list"):
        return u(v.func)
    return None


def _loop_as_comp(kind: str, key: str, loop: ast.For):
    """`for t in it: [if c:] key[k] = v | key.update({k: v}) | key.append(e)` -> comprehension, else None"""
    if loop.orelse or len(loop.body) != 1:
        return None
    body, ifs = loop.body[0], []
    while isinstance(body, ast.If) and not body.orelse and len(body.body) == 1:
        ifs.append(body.test)
        body = body.body[0]
    gen = ast.comprehension(target=loop.target, iter=loop.iter, ifs=ifs, is_async=0)
    if kind == "dict":
        if isinstance(body, ast.Assign) and len(body.targets) == 1 and isinstance(body.targets[0], ast.Subscript) \
                and target_key(body.targets[0].value) == key:
            k, v = body.targets[0].slice, body.value
        elif (isinstance(body, ast.Expr) and isinstance(body.value, ast.Call) and isinstance(body.value.func, ast.Attribute)
              and body.value.func.attr == "update" and target_key(body.value.func.value) == key
              and len(body.value.args) == 1 and not body.value.keywords and isinstance(body.value.args[0], ast.Dict)
              and len(body.value.args[0].keys) == 1 and body.value.args[0].keys[0] is not None):
            k, v = body.value.args[0].keys[0], body.value.args[0].values[0]
        else:
            return None
        if _mentions(k, key) or _mentions(v, key) or _mentions(loop.iter, key):
            return None
        return ast.DictComp(key=k, value=v, generators=[gen])
    if (isinstance(body, ast.Expr) and isinstance(body.value, ast.Call) and isinstance(body.value.func, ast.Attribute)
            and body.value.func.attr == "append" and target_key(body.value.func.value) == key
            and len(body.value.args) == 1 and not body.value.keywords):
        e = body.value.args[0]
        if _mentions(e, key) or _mentions(loop.iter, key):
            return None
        return ast.ListComp(elt=e, generators=[gen])
    return None


def phase_c(stmts):
    """if/else -> conditional expression, default + override, loop -> comprehension"""
    out = []
    for st in stmts:
        if isinstance(st, ast.If) and st.orelse:
            a, b = _single_store(st.body), _single_store(st.orelse)
            if a and b and a[0] == b[0]:
                st = ast.Assign(targets=[a[1]], value=ast.IfExp(test=st.test, body=a[2], orelse=b[2]))
        if isinstance(st, ast.If) and not st.orelse and out:
            a, prev = _single_store(st.body), _single_store([out[-1]])
            if a and prev and a[0] == prev[0] and _is_simple_const(prev[2]) and not _mentions(st.test, a[0]) \
                    and not _mentions(a[2], a[0]):
                out[-1] = ast.Assign(targets=[a[1]], value=ast.IfExp(test=st.test, body=a[2], orelse=prev[2]))
                continue
        out.append(st)
    # loop -> comprehension: `key = {}` ... `for ..: key[k] = v` with no other mention of key in between
    i = 0
    while i < len(out):
        s = _single_store([out[i]])
        kind = _empty_container(s[2]) if s else None
        if kind:
            key = s[0]
            for j in range(i + 1, len(out)):
                if isinstance(out[j], ast.For):
                    comp = _loop_as_comp(kind, key, out[j])
                    if comp is not None:
                        out[j] = ast.Assign(targets=[s[1]], value=comp)
                        del out[i]
                        i -= 1
                        break
                if _mentions(out[j], key):
                    break
        i += 1
    return out


class _Canon(ast.NodeTransformer):
    """expression-level canonical forms"""

    def visit_Compare(self, node):
        self.generic_visit(node)
        if len(node.ops) > 1 and all(isinstance(c, (ast.Name, ast.Attribute, ast.Constant)) for c in node.comparators[:-1]):
            parts, left = [], node.left
            for op, right in zip(node.ops, node.comparators):
                parts.append(ast.Compare(left=left, ops=[op], comparators=[right]))
                left = copy.deepcopy(right)
            return ast.BoolOp(op=ast.And(), values=parts)
        return node

    def visit_Call(self, node):
        self.generic_visit(node)
        f = u(node.func)
        if f == "zip":
            node.keywords = [k for k in node.keywords if k.arg != "strict"]
            if len(node.args) == 2 and not node.keywords and u(node.args[0]) in ("count()", "count(0)", "itertools.count()",
                                                                                 "itertools.count(0)"):
                return ast.Call(func=ast.Name(id="enumerate", ctx=ast.Load()), args=[node.args[1]], keywords=[])
        if f == "list" and len(node.args) == 1 and not node.keywords and isinstance(node.args[0], ast.Call) \
                and u(node.args[0].func) == "map" and len(node.args[0].args) == 2 and not node.args[0].keywords \
                and isinstance(node.args[0].args[0], (ast.Name, ast.Attribute)):
            m = node.args[0]
            v = ast.Name(id="_el", ctx=ast.Load())
            return ast.ListComp(elt=ast.Call(func=m.args[0], args=[v], keywords=[]),
                                generators=[ast.comprehension(target=ast.Name(id="_el", ctx=ast.Store()), iter=m.args[1],
                                                              ifs=[], is_async=0)])
        return node

    def visit_DictComp(self, node):
        self.generic_visit(node)
        if len(node.generators) == 1 and not node.generators[0].ifs and isinstance(node.generators[0].target, ast.Tuple) \
                and len(node.generators[0].target.elts) == 2 \
                and [u(x) for x in node.generators[0].target.elts] == [u(node.key), u(node.value)] \
                and all(isinstance(x, ast.Name) for x in node.generators[0].target.elts):
            return ast.Call(func=ast.Name(id="dict", ctx=ast.Load()), args=[node.generators[0].iter], keywords=[])
        return node

    def visit_ListComp(self, node):
        self.generic_visit(node)
        # [f(el) for el in xs] keeps its form; comprehension variables are renamed to a canonical name when simple
        return node


# ------------------------------------------------------------------------------------------ helper inlining


class NotInlinable(Exception):
    pass


def _callee(call: ast.Call, cx: _Cx):
    """(FunctionDef, class name | None, is_method) of a private helper the call refers to, else None"""
    f = call.func
    if isinstance(f, ast.Name) and f.id.startswith("_") and not f.id.startswith("__") and f.id in cx.mod.funcs \
            and f.id not in cx.keep:
        return cx.mod.funcs[f.id], None, False
    if isinstance(f, ast.Attribute) and isinstance(f.value, ast.Name) and f.value.id in ("self", "cls") \
            and f.attr.startswith("_") and not f.attr.startswith("__") and f.attr not in cx.keep:
        m = cx.mod.method(cx.cls, f.attr)
        if m is not None:
            return m, cx.cls, True
    if isinstance(f, ast.Name) and f.id.startswith("_") and not f.id.startswith("__") and f.id not in cx.mod.funcs \
            and f.id not in cx.keep:
        # a private helper of ANOTHER module of the package: followed only when it is self-contained (every free name
        # is a builtin, or imported from the same place under the same name in both modules)
        got = cx.mod.imported_function(f.id)
        if got is not None and got[1].name not in cx.keep and _self_contained(got[1], got[0], cx.mod):
            return got[1], None, False
    return None


def _self_contained(fn: ast.FunctionDef, home: Mod, caller: Mod) -> bool:
    import builtins
    local = {x.arg for x in fn.args.posonlyargs + fn.args.args + fn.args.kwonlyargs}
    local |= {n.id for n in ast.walk(fn) if isinstance(n, ast.Name) and isinstance(n.ctx, (ast.Store, ast.Del))}
    inner_imports = {(a.asname or a.name).split(".")[0] for n in ast.walk(fn) if isinstance(n, (ast.Import, ast.ImportFrom))
                     for a in n.names}
    taken = home.module_level_names()
    for n in ast.walk(fn):
        if isinstance(n, ast.Name) and isinstance(n.ctx, ast.Load) and n.id not in local:
            if n.id in inner_imports:
                continue
            if n.id in taken or n.id in caller.module_level_names() or n.id in caller.funcs:
                same = n.id in home.imports and home.imports.get(n.id) == caller.imports.get(n.id) \
                    and n.id not in home.funcs and n.id not in home.classes and n.id not in home.consts
                if not same:
                    return False
            elif not hasattr(builtins, n.id):
                return False
    return True


def _bind_args(fn: ast.FunctionDef, call: ast.Call, is_method: bool):
    a = fn.args
    if a.vararg or a.kwarg:
        raise NotInlinable
    static = any(u(d) == "staticmethod" for d in fn.decorator_list)
    if any(u(d) not in ("staticmethod", "classmethod") for d in fn.decorator_list):
        raise NotInlinable
    pos = [x.arg for x in a.posonlyargs + a.args]
    if is_method and not static:
        pos = pos[1:]
    defaults = dict(zip([x.arg for x in (a.posonlyargs + a.args)][len(a.posonlyargs + a.args) - len(a.defaults):], a.defaults))
    for k, d in zip(a.kwonlyargs, a.kw_defaults):
        if d is not None:
            defaults[k.arg] = d
    names = pos + [x.arg for x in a.kwonlyargs]
    bound: dict = {}
    if any(isinstance(x, ast.Starred) for x in call.args) or any(k.arg is None for k in call.keywords):
        raise NotInlinable
    if len(call.args) > len(pos):
        raise NotInlinable
    for p, v in zip(pos, call.args):
        bound[p] = v
    for k in call.keywords:
        if k.arg not in names or k.arg in bound:
            raise NotInlinable
        bound[k.arg] = k.value
    for n in names:
        if n not in bound:
            if n not in defaults:
                raise NotInlinable
            bound[n] = defaults[n]
    return bound


def _single_exit(stmts, mk):
    """rewrite `return e` at the ends of the if/else tree into mk(e); a return anywhere else: NotInlinable"""
    if not stmts:
        return mk(None)
    head, last = stmts[:-1], stmts[-1]
    for st in head:
        if any(isinstance(n, ast.Return) for n in own_nodes(st)):
            raise NotInlinable
    if isinstance(last, ast.Return):
        return head + mk(last.value)
    if not any(isinstance(n, ast.Return) for n in own_nodes(last)):
        return head + [last] + ([] if isinstance(last, ast.Raise) else mk(None))
    if isinstance(last, ast.If):
        last.body = _single_exit(last.body, mk)
        last.orelse = _single_exit(last.orelse, mk)
        return head + [last]
    if isinstance(last, ast.With):
        last.body = _single_exit(last.body, mk)
        return head + [last]
    raise NotInlinable


def inline_stmt(st, cx: _Cx):
    if cx.depth >= MAX_DEPTH:
        return None
    if isinstance(st, ast.Assign) and len(st.targets) == 1 and isinstance(st.value, ast.Call):
        call, how = st.value, "assign"
    elif isinstance(st, ast.Return) and isinstance(st.value, ast.Call):
        call, how = st.value, "return"
    elif isinstance(st, ast.Expr) and isinstance(st.value, ast.Call):
        call, how = st.value, "expr"
    else:
        return None
    found = _callee(call, cx)
    if found is None:
        return None
    fn, cls, is_method = found
    if fn.name in cx.stack:
        return None
    try:
        if any(isinstance(n, (ast.Yield, ast.YieldFrom, ast.Await, ast.Global, ast.Nonlocal)) for n in own_nodes(fn)):
            raise NotInlinable
        if any(isinstance(n, (ast.FunctionDef, ast.AsyncFunctionDef, ast.ClassDef, ast.Lambda)) for n in ast.walk(fn) if n is not fn):
            raise NotInlinable
        bound = _bind_args(fn, call, is_method)
        sub = _Cx(cx.mod, cls if is_method else None, cx.keep, cx.depth + 1, cx.stack + [fn.name], cx.counter)
        body = _normalise_body(copy.deepcopy(fn).body, sub)
        cx.counter[0] += 1
        tag = f"_h{cx.counter[0]}_"
        stored = {n.id for s in body for n in own_nodes(s) if isinstance(n, ast.Name) and isinstance(n.ctx, (ast.Store, ast.Del))}
        rename, pre = {}, []
        for p, v in bound.items():
            direct = isinstance(v, (ast.Name, ast.Constant)) or (isinstance(v, ast.Attribute) and target_key(v) is not None)
            if direct and p not in stored:
                rename[p] = v
            else:
                rename[p] = ast.Name(id=tag + p, ctx=ast.Load())
                pre.append(ast.Assign(targets=[ast.Name(id=tag + p, ctx=ast.Store())], value=v))
        for n in stored:
            rename.setdefault(n, ast.Name(id=tag + n, ctx=ast.Load()))

        class Ren(ast.NodeTransformer):
            def visit_Name(self, node):
                r = rename.get(node.id)
                if r is None:
                    return node
                if isinstance(node.ctx, ast.Load):
                    return copy.deepcopy(r)
                if isinstance(r, ast.Name):
                    return ast.Name(id=r.id, ctx=node.ctx)
                raise NotInlinable

        if how == "assign":
            tgt = st.targets[0]
            mk = lambda v: [ast.Assign(targets=[copy.deepcopy(tgt)], value=v if v is not None else ast.Constant(None))]  # noqa: E731
        elif how == "return":
            mk = lambda v: [ast.Return(value=v)]  # noqa: E731
        else:
            mk = lambda v: ([] if v is None or isinstance(v, (ast.Name, ast.Constant)) else [ast.Expr(value=v)])  # noqa: E731
        body = [Ren().visit(s) for s in body]
        body = _single_exit(body, mk)
        new = pre + body
        # the spliced code takes part in the passes of the caller's block
        return map_blocks(new, lambda b: phase_c(phase_b2(phase_b(b))))
    except NotInlinable:
        return None


def _normalise_body(body, cx: _Cx):
    body = map_blocks(body, lambda b: phase_a(b, cx))
    body = map_blocks(body, phase_b)
    body = map_blocks(body, phase_b2)
    body = map_blocks(body, phase_c)
    body = [_Canon().visit(s) for s in body]
    return body


def normalise(fn: ast.FunctionDef, mod: Mod, cls: str | None = None, keep=()) -> ast.FunctionDef:
    try:
        new = copy.deepcopy(fn)
        cx = _Cx(mod, cls, set(keep) | {fn.name}, 0, [fn.name], [0])
        new.body = _normalise_body(new.body, cx)
        ast.fix_missing_locations(new)
        return new
    except TranslationError:
        raise
    except RecursionError as ex:                                             # pragma: no cover
        raise TranslationError(f"normalisation of {fn.name}: {ex}") from ex
    except Exception as ex:                                                  # fail closed, never crash the check
        raise TranslationError(f"normalisation of {fn.name} failed: {type(ex).__name__}: {ex}") from ex


# ------------------------------------------------------------------------------------------ resolution of names


class Resolver:
    def __init__(self, fn: ast.FunctionDef, mod: Mod):
        self.fn, self.mod = fn, mod
        self.binds: dict = {}       # key -> [(pos, path, kind, value)]
        self.stores: list = []      # (pos, text of a subscript / attribute store or mutating call receiver)
        self.parent: dict = {}
        a = fn.args
        for x in a.posonlyargs + a.args + a.kwonlyargs + ([a.vararg] if a.vararg else []) + ([a.kwarg] if a.kwarg else []):
            self.binds.setdefault(x.arg, []).append((-1, (), "param", None))
        self._pos = 0
        self._number(fn.body, ())
        for n in ast.walk(fn):
            for c in ast.iter_child_nodes(n):
                self.parent[id(c)] = n

    def _bind(self, t, pos, path, kind, value):
        if isinstance(t, (ast.Tuple, ast.List)):
            for e in t.elts:
                self._bind(e, pos, path, "other", None)
            return
        if isinstance(t, ast.Starred):
            return self._bind(t.value, pos, path, "other", None)
        k = target_key(t)
        if k is not None:
            self.binds.setdefault(k, []).append((pos, path, kind, value))
        if isinstance(t, (ast.Subscript, ast.Attribute)):
            # `x[k] = ..` changes what x holds; `a.b = ..` changes a.b (and a.b.c), not a's other attributes
            self.stores.append((pos, u(t.value) if isinstance(t, ast.Subscript) else u(t)))

    def _mark(self, node, pos, path):
        for n in own_nodes(node):
            n._pos, n._path = pos, path
            if isinstance(n, ast.Call) and isinstance(n.func, ast.Attribute) and n.func.attr in MUTATORS:
                self.stores.append((pos, u(n.func.value)))
            if isinstance(n, ast.NamedExpr):
                self._bind(n.target, pos, path, "other", None)

    def _number(self, stmts, path):
        for st in stmts:
            self._pos += 1
            pos = self._pos
            st._pos, st._path = pos, path
            if isinstance(st, (ast.FunctionDef, ast.AsyncFunctionDef, ast.ClassDef)):
                self.binds.setdefault(st.name, []).append((pos, path, "def", None))
                continue
            subs = blocks_of(st)
            if not subs:
                self._mark(st, pos, path)
            else:
                for f, v in ast.iter_fields(st):
                    if f in ("body", "orelse", "finalbody", "handlers", "cases"):
                        continue
                    for x in (v if isinstance(v, list) else [v]):
                        if isinstance(x, ast.AST):
                            self._mark(x, pos, path)
            if isinstance(st, ast.Assign):
                for t in st.targets:
                    self._bind(t, pos, path, "assign" if len(st.targets) == 1 else "other", st.value)
            elif isinstance(st, ast.AugAssign):
                self._bind(st.target, pos, path, "other", None)
            elif isinstance(st, ast.AnnAssign) and st.value is not None:
                self._bind(st.target, pos, path, "assign", st.value)
            elif isinstance(st, (ast.For, ast.AsyncFor)):
                self._bind(st.target, pos, path, "for", st.iter)
            elif isinstance(st, (ast.With, ast.AsyncWith)):
                for it in st.items:
                    if it.optional_vars is not None:
                        self._bind(it.optional_vars, pos, path, "with", it.context_expr)
            elif isinstance(st, ast.Delete):
                for t in st.targets:
                    self._bind(t, pos, path, "other", None)
            for owner, field in subs:
                if isinstance(owner, ast.ExceptHandler) and owner.name:
                    self.binds.setdefault(owner.name, []).append((pos, path, "other", None))
                self._number(getattr(owner, field), path + ((id(st), field if owner is st else id(owner), type(st).__name__),))

    @staticmethod
    def _exclusive(p1, p2) -> bool:
        for a, b in zip(p1, p2):
            if a != b:
                return a[0] == b[0] and a[2] == "If" and a[1] != b[1]
        return False

    def reaching(self, key: str, pos: int, path):
        """the one binding of `key` that reaches a use at (pos, path), or None"""
        bs = self.binds.get(key)
        if not bs:
            return None
        live = [b for b in bs if not self._exclusive(b[1], path)]
        if len(live) != 1:
            return None
        b = live[0]
        if b[0] >= pos or b[1] != path[:len(b[1])]:
            return None
        return b

    def _stable(self, value, d: int, p: int, key: str) -> bool:
        """nothing `value` mentions is re-bound / stored to at a position in (d, p]; the bound object is not mutated later"""
        texts = set()
        for n in ast.walk(value):
            if isinstance(n, ast.Name):
                texts.add(n.id)
            elif isinstance(n, ast.Attribute):
                texts.add(u(n))
        for k in texts:
            for b in self.binds.get(k, []):
                if d < b[0] <= p:
                    return False
        for pos, t in self.stores:
            if d < pos <= p and t in texts:
                return False
            if pos > d and t == key:
                return False
        return True

    def resolve(self, expr, depth: int = 0):
        if depth > 25:
            fail(expr, "alias chain too deep")
        res = self

        class Sub(ast.NodeTransformer):
            def __init__(self):
                self.shadow: list = []

            def _comp(self, node):
                names = {n.id for g in node.generators for n in ast.walk(g.target) if isinstance(n, ast.Name)}
                self.shadow.append(names)
                try:
                    return self.generic_visit(node)
                finally:
                    self.shadow.pop()

            visit_ListComp = visit_SetComp = visit_DictComp = visit_GeneratorExp = _comp

            def visit_Lambda(self, node):
                return node

            def _try(self, node, key):
                if any(key.split(".")[0] in s for s in self.shadow):
                    return None
                pos, path = getattr(node, "_pos", None), getattr(node, "_path", None)
                if pos is None:
                    return None
                b = res.reaching(key, pos, path)
                if b is None:
                    if key not in res.binds and key in res.mod.consts and "." not in key:
                        return res.resolve(copy.deepcopy(res.mod.consts[key]), depth + 1)
                    return None
                if b[2] != "assign" or b[3] is None or _mentions(b[3], key):
                    return None
                if not res._stable(b[3], b[0], pos, key):
                    return None
                return res.resolve(_copy_keep(b[3]), depth + 1)

            def visit_Name(self, node):
                if not isinstance(node.ctx, ast.Load):
                    return node
                r = self._try(node, node.id)
                return node if r is None else r

            def visit_Attribute(self, node):
                if isinstance(node.ctx, ast.Load):
                    k = target_key(node)
                    if k is not None and k in res.binds:
                        r = self._try(node, k)
                        if r is not None:
                            return r
                return self.generic_visit(node)

        return Sub().visit(_copy_keep(expr))

    def with_binding(self, name: str, node):
        """the context expression that binds `name` by `with .. as name` (reaching the use `node`), else None"""
        b = self.reaching(name, getattr(node, "_pos", 10 ** 9), getattr(node, "_path", ()))
        return b[3] if b is not None and b[2] == "with" else None

    def enclosing(self, node, kind):
        n = self.parent.get(id(node))
        while n is not None and not isinstance(n, kind):
            n = self.parent.get(id(n))
        return n


def _copy_keep(node):
    """deep copy that keeps the position marks of every node"""
    return copy.deepcopy(node)


def leaves(expr):
    """the alternatives of a (nested) conditional expression"""
    if isinstance(expr, ast.IfExp):
        return leaves(expr.body) + leaves(expr.orelse)
    return [expr]


# ------------------------------------------------------------------------------------------ structural matching

_META = re.compile(r"^_[A-Z][A-Z0-9_]*$")


def pat(src: str):
    return ast.parse(src, mode="eval").body


def match(p, n, b: dict | None = None):
    """bindings (metavariable -> node) when node n has the shape of pattern p, else None"""
    b = {} if b is None else b
    return b if _m(p, n, b) else None


def _m(p, n, b) -> bool:
    if isinstance(p, ast.Name) and _META.match(p.id):
        if p.id == "_ANY":
            return True
        if not isinstance(n, ast.AST):
            return False
        if p.id in b:
            return u(b[p.id]) == u(n)
        b[p.id] = n
        return True
    if isinstance(p, ast.AST):
        if type(p) is not type(n):
            return False
        if isinstance(p, ast.Call):
            pa, na = list(p.args), list(n.args)
            more_args = bool(pa) and isinstance(pa[-1], ast.Starred) and isinstance(pa[-1].value, ast.Name) \
                and _META.match(pa[-1].value.id)
            if more_args:
                pa = pa[:-1]
                if len(na) < len(pa):
                    return False
                na = na[:len(pa)]
            if len(pa) != len(na) or not _m(p.func, n.func, b) or not all(_m(x, y, b) for x, y in zip(pa, na)):
                return False
            more_kw = any(k.arg is None for k in p.keywords)
            if any(k.arg is None for k in n.keywords):
                return False
            want = {k.arg: k.value for k in p.keywords if k.arg is not None}
            have = {k.arg: k.value for k in n.keywords}
            if not more_kw and set(have) != set(want):
                return False
            return all(k in have and _m(v, have[k], b) for k, v in want.items())
        for f, pv in ast.iter_fields(p):
            if f in ("ctx", "type_comment", "lineno", "col_offset", "end_lineno", "end_col_offset", "kind"):
                continue
            nv = getattr(n, f, None)
            if isinstance(pv, list):
                if not isinstance(nv, list) or len(pv) != len(nv) or not all(_m(x, y, b) for x, y in zip(pv, nv)):
                    return False
            elif isinstance(pv, ast.AST):
                if not _m(pv, nv, b):
                    return False
            elif pv != nv:
                return False
        return True
    return p == n


class Fn:
    """a function of the source: raw node, normalised node, resolver"""

    def __init__(self, mod: Mod, raw: ast.FunctionDef, cls: str | None = None, keep=()):
        self.mod, self.raw, self.cls = mod, raw, cls
        self.node = normalise(raw, mod, cls, keep)
        try:
            self.res = Resolver(self.node, mod)
        except TranslationError:
            raise
        except Exception as ex:
            raise TranslationError(f"resolver of {raw.name} failed: {type(ex).__name__}: {ex}") from ex

    def R(self, expr):
        if expr is None:
            return None
        try:
            return self.res.resolve(expr)
        except TranslationError:
            raise
        except Exception as ex:
            raise TranslationError(f"resolution in {self.raw.name} failed: {type(ex).__name__}: {ex}") from ex

    def calls(self, pred):
        """the calls of the function (outside nested defs) whose RESOLVED callee text satisfies pred, in source order;
        each as (original node, resolved node)"""
        out = []
        for n in ast.walk(self.node):
            if isinstance(n, ast.Call) and hasattr(n, "_pos"):
                r = self.R(n)
                if isinstance(r, ast.Call) and pred(u(r.func)):
                    out.append((n, r))
        out.sort(key=lambda x: (x[0]._pos, getattr(x[0], "col_offset", 0)))
        return out

    def params(self):
        a = self.raw.args
        return [x.arg for x in a.posonlyargs + a.args + a.kwonlyargs]

    def rebinds(self, name: str) -> bool:
        return any(b[2] != "param" for b in self.res.binds.get(name, []))


# ------------------------------------------------------------------------------------------ self test
# `python -m translator.c07_norm`: pairs of equivalent shapes must resolve to the same text, look-alikes must not

_SELFTEST = [
    # (same?, anchor call name, source A, source B)
    (True, "sink", "def f(a, b):\n    x = _h(a, b)\n    sink(x)\ndef _h(p, q):\n    '''doc'''\n    r = p + q\n    return r * 2\n",
     "def f(a, b):\n    sink((a + b) * 2)\n"),
    (False, "sink", "def f(a, b):\n    x = _h(a)\n    sink(x)\ndef _h(p, q=0):\n    return (p + q) * 2\n",
     "def f(a, b):\n    sink((a + b) * 2)\n"),
    (True, "sink", "def f(a):\n    cur = a.items\n    sink(cur)\n", "def f(a):\n    sink(a.items)\n"),
    (False, "sink", "def f(a):\n    cur = a\n    a = g(a)\n    sink(cur)\n", "def f(a):\n    a = g(a)\n    sink(a)\n"),
    (False, "sink", "def f(a):\n    cur = a.items\n    a.items = []\n    sink(cur)\n", "def f(a):\n    a.items = []\n    sink(a.items)\n"),
    (True, "sink", "def f(a):\n    if a is None:\n        return 0\n    x = g(a)\n    sink(x)\n",
     "def f(a):\n    if a is not None:\n        x = g(a)\n        sink(x)\n    else:\n        return 0\n"),
    (True, "sink", "def f(a, c):\n    if c:\n        x = 1\n    else:\n        x = g(a)\n    sink(x)\n",
     "def f(a, c):\n    x = 1 if c else g(a)\n    sink(x)\n"),
    (True, "sink", "def f(a, c):\n    if not c:\n        x = g(a)\n    else:\n        x = 1\n    sink(x)\n",
     "def f(a, c):\n    sink(1 if c else g(a))\n"),
    (False, "sink", "def f(a, c):\n    if not c:\n        x = 1\n    else:\n        x = g(a)\n    sink(x)\n",
     "def f(a, c):\n    sink(1 if c else g(a))\n"),
    (True, "sink", "def f(a, c):\n    x = None\n    if c:\n        x = g(a)\n    sink(x)\n", "def f(a, c):\n    sink(g(a) if c else None)\n"),
    (True, "sink", "def f(ks, vs):\n    d = {}\n    for k, v in zip(ks, vs, strict=False):\n        d.update({k: v})\n    sink(d)\n",
     "def f(ks, vs):\n    sink(dict(zip(ks, vs)))\n"),
    (True, "sink", "def f(ks, vs):\n    d = {k: v for k, v in zip(ks, vs)}\n    sink(d)\n", "def f(ks, vs):\n    sink(dict(zip(ks, vs)))\n"),
    (False, "sink", "def f(ks, vs):\n    d = {}\n    for k, v in zip(ks, vs):\n        d[v] = k\n    sink(d)\n",
     "def f(ks, vs):\n    sink(dict(zip(ks, vs)))\n"),
    (True, "sink", "def f(xs):\n    out = []\n    for x in xs:\n        if x.on:\n            out.append(x.v)\n    sink(out)\n",
     "def f(xs):\n    sink([x.v for x in xs if x.on])\n"),
    (True, "sink", "def f(xs):\n    sink(list(zip(count(), xs)))\n", "def f(xs):\n    sink(list(enumerate(xs)))\n"),
    (True, "sink", "def f(x, lo, hi):\n    sink(lo <= x <= hi)\n", "def f(x, lo, hi):\n    sink(lo <= x and x <= hi)\n"),
    (True, "sink", "def f(m, a):\n    match m:\n        case 'p':\n            x = 1\n        case 's':\n            x = 2\n        case _:\n            x = g(a)\n    sink(x)\n",
     "def f(m, a):\n    if m == 'p':\n        x = 1\n    elif m == 's':\n        x = 2\n    else:\n        x = g(a)\n    sink(x)\n"),
    (True, "BODY", "def f(xs):\n    for x in xs:\n        if not x.on:\n            continue\n        sink(x)\n",
     "def f(xs):\n    for x in xs:\n        if x.on:\n            sink(x)\n"),
    (False, "BODY", "def f(xs):\n    for x in xs:\n        if x.on:\n            continue\n        sink(x)\n",
     "def f(xs):\n    for x in xs:\n        if x.on:\n            sink(x)\n"),
    (True, "sink", "LIMIT = 7\ndef f(a):\n    sink(a, LIMIT)\n", "def f(a):\n    sink(a, 7)\n"),
    (True, "sink", "def f(a):\n    try:\n        x = g(a)\n    except E:\n        raise\n    else:\n        return x\n    sink(0)\n",
     "def f(a):\n    try:\n        x = g(a)\n        return x\n    except E:\n        raise\n    sink(0)\n"),
    (True, "sink", "def f(a):\n    logging.info('x %s', a)\n    y: int = g(a)\n    '''note'''\n    sink(y)\n", "def f(a):\n    sink(g(a))\n"),
]


def selftest() -> int:
    bad = 0
    for k, (same, anchor, a, b) in enumerate(_SELFTEST):
        texts = []
        for src in (a, b):
            mod = Mod(ast.parse(src))
            f = Fn(mod, mod.funcs["f"], None, ())
            if anchor == "BODY":
                texts.append("\n".join(u(x) for x in f.node.body))
                continue
            cs = f.calls(lambda n: n == anchor)
            rets = [u(f.R(n.value)) for n in ast.walk(f.node) if isinstance(n, ast.Return) and n.value is not None and hasattr(n, "_pos")]
            texts.append(([u(c[1]) for c in cs], rets))
        ok = (texts[0] == texts[1]) == same
        if not ok:
            bad += 1
        print(("ok  " if ok else "FAIL"), k, "expected", "same" if same else "different", "|", texts[0], "|", texts[1])
    return bad


if __name__ == "__main__":
    raise SystemExit(1 if selftest() else 0)
