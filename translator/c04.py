"""C04 translator: seed brackets and seed forwarding, read from the current source (fail closed).

Emits Gen_C04.v with
  src_srs_cfg        : what set_random_seed does for `seed is not None` (save point, reseeding, restore on
                       normal exit / on exception); seed None must be a bare `yield`
  src_links          : (mode, link, passes pipeline_seed on) for every call on the way from a running mode
                       to run_pipeline / to the fitting problem, and whether run_pipeline puts every
                       processor.run_pipeline call inside `with set_random_seed(seed=pipeline_seed)`
  src_seeded_models  : one row per function under pyxel/models/** that has a `seed` parameter: draw sites
                       (np.random.* / numpy.random.* calls, and calls into helpers that draw, followed
                       transitively by name inside pyxel/models) inside / outside the bracket, bare
                       np.random.seed / set_state calls, is the bracket given the `seed` argument
  src_seed_sites     : every np.random.seed / set_state call site in pyxel/ outside util/randomize.py
  src_seed_truthiness: every truthiness test on a seed (`if seed`, `seed or x`, `x if seed else y`, `not seed`,
                       and `value` inside a `*seed` setter) in the running modes, run.py, the configuration
                       builders, util/randomize.py and pyxel/models/**
  src_island_build   : how each branch of ArchipelagoDataTree._build iterates over the created islands
                       (builtin map / executor.map / futures read in order -> BMap; as_completed -> BAsCompleted)
Rows of src_links are (mode, entry, link, XId | XTruthy | XDrop): what the link does to the seed it is handed,
for the constructor, the YAML builder, the attribute setter and the override path of every mode.
Rows of src_seeded_models also carry the number of iterations over hash-ordered collections (set literals /
set() / frozenset() / set comprehensions / `a.keys() & b` ...; in the function or in helpers followed by name)
and the number of truthiness tests on the function's own `seed`.
`analyse(repo)` returns the same facts as a Python dict (used by the harness to build programs).
"""
from __future__ import annotations

import ast
from pathlib import Path

from harness.core import TranslationError

from . import c04_norm as norm
from .common import HEADER, body_no_doc, fail, find_func, parse

NPR = ("np.random.", "numpy.random.")
STATE_CALLS = ("seed", "set_state")
NON_DRAW = ("seed", "set_state", "get_state", "default_rng", "Generator", "RandomState", "SeedSequence")


def _callname(call: ast.Call) -> str:
    try:
        return ast.unparse(call.func)
    except Exception:  # noqa: BLE001
        return ""


def _np_random_attr(call: ast.Call):
    nm = _callname(call)
    for pre in NPR:
        if nm.startswith(pre):
            return nm[len(pre):]
    return None


# ------------------------------------------------------------------ set_random_seed


def srs_cfg(repo: Path) -> dict:
    tree = parse(repo, "pyxel/util/randomize.py")
    fn = find_func(tree, "set_random_seed")
    decos = [ast.unparse(d) for d in fn.decorator_list]
    if decos not in (["contextmanager"], ["contextlib.contextmanager"]):
        fail(fn, "set_random_seed must be a @contextmanager generator")
    params = [a.arg for a in fn.args.args]
    if params != ["seed"]:
        fail(fn, "set_random_seed(seed) signature")
    body = body_no_doc(fn)

    # Read the function by WALKING ITS PATHS, not by matching its layout: for `seed is None` and for
    # `seed is not None`, on the normal path and on the path where the exception is thrown in at the `yield`,
    # which of save (x = np.random.get_state()) / seed (np.random.seed(seed)) / yield / restore
    # (np.random.set_state(x)) happen, in which order.  Nested if/else, guard clause + early return, inverted test,
    # renamed local, comments and docstrings all give the same traces.  Any other statement fails closed.
    def test_value(t, seed_none):
        if isinstance(t, ast.UnaryOp) and isinstance(t.op, ast.Not):
            return not test_value(t.operand, seed_none)
        if isinstance(t, ast.Compare) and len(t.ops) == 1 and isinstance(t.ops[0], (ast.Is, ast.IsNot)):
            l, r = t.left, t.comparators[0]
            if (_is_name(l, "seed") and _is_none(r)) or (_is_none(l) and _is_name(r, "seed")):
                return seed_none if isinstance(t.ops[0], ast.Is) else not seed_none
        fail(t, "a test in set_random_seed must be `seed is None` / `seed is not None`")

    def run_path(seed_none, throw):
        ev = []

        def block(stmts, thrown):
            """-> 'fall' | 'return' | 'exc'"""
            for st in stmts:
                r = one(st, thrown)
                if r != "fall":
                    return r
            return "fall"

        def one(st, thrown):
            if isinstance(st, ast.Pass):
                return "fall"
            if isinstance(st, ast.Expr) and isinstance(st.value, ast.Constant):
                return "fall"
            if isinstance(st, ast.Return) and st.value is None:
                return "return"
            tgt = v = None
            if isinstance(st, ast.Assign) and len(st.targets) == 1:
                tgt, v = st.targets[0], st.value
            elif isinstance(st, ast.AnnAssign) and st.value is not None:
                tgt, v = st.target, st.value
            if tgt is not None:
                if isinstance(tgt, ast.Name) and isinstance(v, ast.Call) and _np_random_attr(v) == "get_state" \
                        and not v.args and not v.keywords:
                    ev.append(("save", tgt.id))
                    return "fall"
                fail(st, "assignment shape not accepted in set_random_seed")
            if isinstance(st, ast.Expr) and isinstance(st.value, ast.Call):
                c = st.value
                a = _np_random_attr(c)
                args = [x for x in c.args] + [k.value for k in c.keywords]
                if a == "seed":
                    if [ast.unparse(x) for x in args] != ["seed"]:
                        fail(st, "np.random.seed must be given `seed`")
                    ev.append(("seed", None))
                    return "fall"
                if a == "set_state":
                    if len(args) != 1 or not isinstance(args[0], ast.Name):
                        fail(st, "np.random.set_state must be given the saved name")
                    ev.append(("restore", args[0].id))
                    return "fall"
                fail(st, "unexpected call in set_random_seed")
            if isinstance(st, ast.Expr) and isinstance(st.value, ast.Yield) and st.value.value is None:
                if thrown[0] is None:
                    fail(st, "a second yield (or a yield while leaving) in set_random_seed")
                ev.append(("yield", None))
                if thrown[0]:
                    thrown[0] = None
                    return "exc"
                thrown[0] = None
                return "fall"
            if isinstance(st, ast.If):
                return block(st.body if test_value(st.test, seed_none) else st.orelse, thrown)
            if isinstance(st, ast.Try):
                if st.handlers or st.orelse:
                    fail(st, "try in set_random_seed may only have a finally block")
                r = block(st.body, thrown)
                r2 = block(st.finalbody, thrown)
                return r2 if r2 != "fall" else r
            fail(st, "statement shape not accepted in set_random_seed")

        thrown = [bool(throw)]            # True/False until the yield is met, None afterwards
        block(body, thrown)
        if thrown[0] is not None:
            fail(fn, "a path through set_random_seed never yields")
        return ev

    ev_none = run_path(True, False)
    ev_none_raise = run_path(True, True)
    for e in (ev_none, ev_none_raise):
        if [k for k, _ in e if k != "save"] != ["yield"]:
            fail(fn, "for seed None set_random_seed must only `yield` (no seeding, no restoring)")
    ev_normal = run_path(False, False)
    ev_raise = run_path(False, True)
    node = fn
    kinds = [k for k, _ in ev_normal]
    iy = kinds.index("yield")
    pre = ev_normal[:iy]
    post = ev_normal[iy + 1:]
    saves = [(i, n) for i, (k, n) in enumerate(pre) if k == "save"]
    seeds = [i for i, (k, _) in enumerate(pre) if k == "seed"]
    if len(saves) > 1 or len(seeds) > 1 or any(k in ("save", "seed") for k, _ in post) or ev_raise[:iy + 1] != ev_normal[:iy + 1]:
        fail(node, "more than one save/seed, or save/seed after the yield")
    saved_name = saves[0][1] if saves else None
    reseeds = bool(seeds)
    save_before = bool(saves) and (not seeds or saves[0][0] < seeds[0])

    def restores(evs):
        if any(k in ("save", "seed") for k, _ in evs):
            fail(node, "save/seed after the yield")
        names = [n for k, n in evs if k == "restore"]
        if any(n != saved_name for n in names):
            fail(node, "set_state is given something else than the saved state")
        return bool(names) and saved_name is not None

    return dict(save_before_seed=save_before, reseeds=reseeds, restore_on_normal=restores(post),
                restore_on_raise=restores(ev_raise[iy + 1:]))


# ------------------------------------------------------------------ mode plumbing


def _calls(scope: ast.AST, callee: str) -> list[ast.Call]:
    return [n for n in ast.walk(scope) if isinstance(n, ast.Call) and _callname(n).split(".")[-1] == callee
            and (_callname(n) == callee or _callname(n).endswith("." + callee))]


def _kw(call: ast.Call, name: str):
    for k in call.keywords:
        if k.arg == name:
            return ast.unparse(k.value)
    return None


def _rebinds(scope, name) -> bool:
    """Is the plain name (a parameter) assigned to anywhere in the scope?  Then `name` at a call site need not be
    the value that came in."""
    return any(isinstance(n, ast.Name) and n.id == name and isinstance(n.ctx, (ast.Store, ast.Del)) for n in ast.walk(scope))


def _link_all_calls(scope, callee, kw, accepted, where) -> bool:
    cs = _calls(scope, callee)
    if not cs:
        raise TranslationError(f"{where}: no call of {callee} found")
    plain = [a for a in accepted if a.isidentifier()]
    if any(_rebinds(scope, a) for a in plain):
        return False
    return all(_kw(c, kw) in accepted for c in cs)


XID, XTRUTHY, XDROP = "XId", "XTruthy", "XDrop"


def _is_name(e, name) -> bool:
    return isinstance(e, ast.Name) and e.id == name


def _is_none(e) -> bool:
    return isinstance(e, ast.Constant) and e.value is None


def _plain(e, name) -> bool:
    """`name`, or `int(name)` (the identity on every int seed)."""
    if _is_name(e, name):
        return True
    return (isinstance(e, ast.Call) and isinstance(e.func, ast.Name) and e.func.id == "int" and len(e.args) == 1
            and not e.keywords and _is_name(e.args[0], name))


def _store_xfer(e, name, where, tree=None, depth=0) -> str:
    """What `self._x = <e>` does to the seed held by `name`.  Unknown shapes fail closed."""
    if _plain(e, name):
        return XID
    if tree is not None and depth < 3 and isinstance(e, ast.Call) and isinstance(e.func, ast.Name) \
            and len(e.args) + len(e.keywords) == 1 and _is_name((e.args + [k.value for k in e.keywords])[0], name):
        # a validating helper of the same module: [guards that only raise]; return <expr of its parameter>
        hs = [f for f in tree.body if isinstance(f, ast.FunctionDef) and f.name == e.func.id]
        if len(hs) == 1 and len(hs[0].args.args) == 1 and not hs[0].decorator_list:
            p = hs[0].args.args[0].arg
            body = [st for st in norm.ifelse_to_ifexp(norm.guards_to_ifelse(body_no_doc(hs[0])))
                    if not isinstance(st, ast.Pass)
                    and not (isinstance(st, ast.If) and not st.orelse and all(isinstance(x, ast.Raise) for x in st.body))]
            if len(body) == 1 and isinstance(body[0], ast.Return) and body[0].value is not None:
                return _store_xfer(body[0].value, p, where, tree, depth + 1)
    if _is_none(e):
        return XDROP
    if isinstance(e, ast.IfExp):
        t = e.test
        if _is_name(t, name) and _plain(e.body, name) and _is_none(e.orelse):
            return XTRUTHY                                  # x if x else None
        if isinstance(t, ast.UnaryOp) and isinstance(t.op, ast.Not) and _is_name(t.operand, name) \
                and _is_none(e.body) and _plain(e.orelse, name):
            return XTRUTHY                                  # None if not x else x
        if isinstance(t, ast.Compare) and _is_name(t.left, name) and len(t.ops) == 1 and _is_none(t.comparators[0]):
            if isinstance(t.ops[0], ast.IsNot) and _plain(e.body, name) and _is_none(e.orelse):
                return XID                                  # x if x is not None else None
            if isinstance(t.ops[0], ast.Is) and _is_none(e.body) and _plain(e.orelse, name):
                return XID                                  # None if x is None else x
    if isinstance(e, ast.BoolOp) and isinstance(e.op, ast.Or) and len(e.values) == 2 \
            and _plain(e.values[0], name) and _is_none(e.values[1]):
        return XTRUTHY                                      # x or None
    raise TranslationError(f"{where}: the stored seed expression `{ast.unparse(e)}` has a shape the translator "
                           f"does not know")


def _class(tree, cls):
    c = [n for n in ast.walk(tree) if isinstance(n, ast.ClassDef) and n.name == cls]
    if len(c) != 1:
        raise TranslationError(f"class {cls}: found {len(c)}")
    return c[0]


def _ctor_store(tree, cls, attr, where):
    """(-> xfer of the store in __init__, name of the field it is stored in or None)."""
    init = find_func(tree, "__init__", cls)
    if attr not in [a.arg for a in init.args.args + init.args.kwonlyargs]:
        return XDROP, None
    found = []
    for n in ast.walk(init):
        tgt = None
        if isinstance(n, ast.Assign) and len(n.targets) == 1:
            tgt, v = n.targets[0], n.value
        elif isinstance(n, ast.AnnAssign) and n.value is not None:
            tgt, v = n.target, n.value
        if tgt is not None and isinstance(tgt, ast.Attribute) and ast.unparse(tgt) in (f"self._{attr}", f"self.{attr}"):
            found.append((ast.unparse(tgt), v))
    if not found:
        return XDROP, None
    if len(found) != 1:
        raise TranslationError(f"{where}: __init__ stores {attr} {len(found)} times")
    field, v = found[0]
    return _store_xfer(v, attr, f"{where}.__init__", tree), field


def _getter(tree, cls, attr, field) -> str:
    if field is None:
        return XDROP
    if field == f"self.{attr}":
        return XID          # a plain public attribute
    for f in _class(tree, cls).body:
        if isinstance(f, ast.FunctionDef) and f.name == attr and any(ast.unparse(d) == "property" for d in f.decorator_list):
            rets = [n for n in ast.walk(f) if isinstance(n, ast.Return)]
            if len(rets) == 1 and rets[0].value is not None and ast.unparse(rets[0].value) == field:
                return XID
            return XDROP
    return XDROP


def _setter(tree, cls, attr, field, where):
    """xfer of `@<attr>.setter`: optional `if ...: raise ...` guards, then one `self._<attr> = <expr>`.
    None if the class has no such setter (a plain attribute: assignment stores the value itself)."""
    fns = [f for f in _class(tree, cls).body if isinstance(f, ast.FunctionDef) and f.name == attr
           and any(ast.unparse(d) == f"{attr}.setter" for d in f.decorator_list)]
    if not fns:
        return None
    if len(fns) != 1:
        raise TranslationError(f"{where}: {len(fns)} setters for {attr}")
    fn = fns[0]
    params = [a.arg for a in fn.args.args]
    if len(params) != 2:
        fail(fn, f"{where}: setter signature")
    val = params[1]
    body = [st for st in norm.ifelse_to_ifexp(norm.guards_to_ifelse(body_no_doc(fn))) if not isinstance(st, ast.Pass)]
    while body and isinstance(body[0], ast.If) and not body[0].orelse \
            and all(isinstance(x, ast.Raise) for x in body[0].body):
        body = body[1:]                                   # validation that only raises
    if len(body) != 1:
        fail(fn, f"{where}: setter body is not `[guards that raise]; self._{attr} = <expr>`")
    st = body[0]
    if isinstance(st, ast.Assign) and len(st.targets) == 1:
        tgt, v = st.targets[0], st.value
    elif isinstance(st, ast.AnnAssign) and st.value is not None:
        tgt, v = st.target, st.value
    else:
        fail(st, f"{where}: setter does not end in an assignment")
    if field is None or ast.unparse(tgt) != field:
        return XDROP                                      # stores somewhere the getter does not read
    return _store_xfer(v, val, f"{where} setter", tree)


def _builder(repo, fname, cls, where) -> str:
    """configuration.to_<mode>(dct): ends in `return <cls>(**dct)` and never names the key 'pipeline_seed'."""
    tree = parse(repo, "pyxel/configuration/configuration.py")
    fn = find_func(tree, fname)
    rets = [n for n in ast.walk(fn) if isinstance(n, ast.Return) and n.value is not None]
    ok = bool(rets) and all(
        isinstance(r.value, ast.Call) and ast.unparse(r.value.func).split(".")[-1] == cls and not r.value.args
        and len(r.value.keywords) == 1 and r.value.keywords[0].arg is None for r in rets)
    names_key = any(isinstance(n, ast.Constant) and n.value == "pipeline_seed" for n in ast.walk(fn))
    if not ok:
        raise TranslationError(f"{where}: {fname} no longer ends in `return {cls}(**dct)`")
    return XDROP if names_key else XID


def _override(repo) -> str:
    """run.apply_overrides: a mode key ends in `setattr(obj, att, value)` with the loop's own value."""
    tree = parse(repo, "pyxel/run.py")
    fn = find_func(tree, "apply_overrides")
    loops = [n for n in ast.walk(fn) if isinstance(n, ast.For) and ast.unparse(norm.resolve(fn, n.iter)) == "overrides.items()"]
    if len(loops) != 1 or not isinstance(loops[0].target, ast.Tuple) or len(loops[0].target.elts) != 2:
        raise TranslationError("apply_overrides: expected one `for key, value in overrides.items()`")
    val = ast.unparse(loops[0].target.elts[1])
    sets = [c for c in ast.walk(loops[0]) if isinstance(c, ast.Call) and _callname(c) == "setattr"]
    if not sets:
        raise TranslationError("apply_overrides: no setattr call")
    for n in ast.walk(loops[0]):   # the value must not be rebound inside the loop
        if isinstance(n, (ast.Assign, ast.AugAssign, ast.AnnAssign)):
            tg = n.targets if isinstance(n, ast.Assign) else [n.target]
            if any(ast.unparse(t) == val for t in tg):
                raise TranslationError("apply_overrides: the override value is rebound before it is stored")
    return XID if all(len(c.args) == 3 and not c.keywords and ast.unparse(c.args[2]) == val for c in sets) else XDROP


def _b(ok: bool) -> str:
    return XID if ok else XDROP


# the functions the link table names as ends of a link are never inlined into their callers
LINK_ENDS = ("run_pipeline", "run_pipelines_with_dask", "_run_pipelines_array_to_datatree", "_run_pipelines_tuple_to_array",
             "_run_single_pipeline", "run_pipelines", "run_exposure", "run_calibration", "set_random_seed",
             "create_island", "_build", "apply_ufunc")


def _nf(tree, name, cls=None):
    """find_func + general normalisations (private helpers of the same module / class inlined, guard clauses ->
    if/else, single-assignment aliases substituted): an equivalent rewrite of the function reads the same."""
    fn = find_func(tree, name, cls)
    return norm.normalised(fn, tree, _class(tree, cls) if cls else None, stop=LINK_ENDS)


def _nclass(tree, cls):
    c = _class(tree, cls)
    return ast.Module(body=[norm.normalised(f, tree, c, stop=LINK_ENDS) if isinstance(f, ast.FunctionDef) else f
                            for f in c.body], type_ignores=[])


def links(repo: Path) -> list[tuple[str, str, str, str]]:
    out = []
    SELF = ("self.pipeline_seed", "self._pipeline_seed")
    ARG = ("pipeline_seed",)

    # run_pipeline itself: every processor.run_pipeline(...) sits inside `with set_random_seed(seed=pipeline_seed)`
    ex = parse(repo, "pyxel/exposure/exposure.py")
    rp = _nf(ex, "run_pipeline")
    if "pipeline_seed" not in [a.arg for a in rp.args.args + rp.args.kwonlyargs]:
        raise TranslationError("run_pipeline has no pipeline_seed parameter")
    inner = [n for n in ast.walk(rp) if isinstance(n, ast.Call) and _callname(n) == "processor.run_pipeline"]
    if not inner:
        raise TranslationError("run_pipeline: no processor.run_pipeline call")
    covered = set()
    for w in ast.walk(rp):
        if isinstance(w, ast.With) and _with_seed_expr(w) == "pipeline_seed":
            for n in ast.walk(w):
                covered.add(id(n))
    bracket_ok = all(id(c) in covered for c in inner)
    for n in ast.walk(rp):     # pipeline_seed must reach the bracket as it came in
        if isinstance(n, (ast.Assign, ast.AugAssign, ast.AnnAssign)):
            tg = n.targets if isinstance(n, ast.Assign) else [n.target]
            if any(ast.unparse(t) == "pipeline_seed" for t in tg):
                raise TranslationError("run_pipeline rebinds pipeline_seed before the bracket")
    for m in ("exposure", "observation", "observation_dask", "calibration"):
        out.append((m, "", "run_pipeline: whole run inside set_random_seed(pipeline_seed)", _b(bracket_ok)))

    ovr = _override(repo)

    def doors(modes, tree, cls, builder, where):
        """constructor / YAML builder / setter / override rows of one running-mode class."""
        cx, field = _ctor_store(tree, cls, "pipeline_seed", where)
        gx = _getter(tree, cls, "pipeline_seed", field)
        sx = _setter(tree, cls, "pipeline_seed", field, where)
        bx = _builder(repo, builder, cls, where) if builder else None
        for m in modes:
            out.append((m, "ctor", f"{cls}.__init__ stores pipeline_seed", cx))
            if bx is not None:
                out.append((m, "yaml", f"configuration.{builder} hands the section to {cls}(**dct)", bx))
                out.append((m, "yaml", f"{cls}.__init__ stores pipeline_seed", cx))
            if sx is not None:
                out.append((m, "setter", f"{cls}.pipeline_seed setter stores the value", sx))
                out.append((m, "override", "run.apply_overrides: setattr(obj, att, value)", ovr))
                out.append((m, "override", f"{cls}.pipeline_seed setter stores the value", sx))
            out.append((m, "", f"{cls}.pipeline_seed reads the stored field", gx))

    doors(("exposure",), ex, "Exposure", "to_exposure", "Exposure")
    out.append(("exposure", "", "Exposure.run_exposure -> run_pipeline",
                _b(_link_all_calls(_nf(ex, "run_exposure", "Exposure"), "run_pipeline", "pipeline_seed", SELF,
                                   "Exposure.run_exposure"))))

    ob = parse(repo, "pyxel/observation/observation.py")
    doors(("observation", "observation_dask"), ob, "Observation", "to_observation", "Observation")
    out.append(("observation", "", "Observation._run_single_pipeline -> run_pipeline",
                _b(_link_all_calls(_nf(ob, "_run_single_pipeline", "Observation"), "run_pipeline",
                                   "pipeline_seed", SELF, "Observation._run_single_pipeline"))))
    out.append(("observation_dask", "", "Observation.run_pipelines -> run_pipelines_with_dask",
                _b(_link_all_calls(_nf(ob, "run_pipelines", "Observation"), "run_pipelines_with_dask",
                                   "pipeline_seed", SELF, "Observation.run_pipelines"))))
    od = parse(repo, "pyxel/observation/observation_dask.py")
    rwd = _nf(od, "run_pipelines_with_dask")
    out.append(("observation_dask", "", "run_pipelines_with_dask -> first _run_pipelines_array_to_datatree",
                _b(_link_all_calls(rwd, "_run_pipelines_array_to_datatree", "pipeline_seed", ARG, "run_pipelines_with_dask"))))
    au = _calls(rwd, "apply_ufunc")
    if len(au) != 1:
        raise TranslationError("run_pipelines_with_dask: expected one apply_ufunc call")
    kwargs = [norm.resolve(rwd, k.value) for k in au[0].keywords if k.arg == "kwargs"]   # dict display, or a name bound once to one
    ok = False
    if len(kwargs) == 1 and isinstance(kwargs[0], ast.Dict):
        for k, v in zip(kwargs[0].keys, kwargs[0].values):
            if isinstance(k, ast.Constant) and k.value == "pipeline_seed" and ast.unparse(v) == "pipeline_seed" \
                    and not _rebinds(rwd, "pipeline_seed"):
                ok = True
    if not au[0].args or ast.unparse(au[0].args[0]) != "_run_pipelines_tuple_to_array":
        raise TranslationError("apply_ufunc no longer applies _run_pipelines_tuple_to_array")
    out.append(("observation_dask", "", "run_pipelines_with_dask -> apply_ufunc kwargs", _b(ok)))
    out.append(("observation_dask", "", "_run_pipelines_tuple_to_array -> _run_pipelines_array_to_datatree",
                _b(_link_all_calls(_nf(od, "_run_pipelines_tuple_to_array"), "_run_pipelines_array_to_datatree",
                                   "pipeline_seed", ARG, "_run_pipelines_tuple_to_array"))))
    out.append(("observation_dask", "", "_run_pipelines_array_to_datatree -> run_pipeline",
                _b(_link_all_calls(_nf(od, "_run_pipelines_array_to_datatree"), "run_pipeline",
                                   "pipeline_seed", ARG, "_run_pipelines_array_to_datatree"))))

    ca = parse(repo, "pyxel/calibration/calibration.py")
    doors(("calibration",), ca, "Calibration", "to_calibration", "Calibration")
    rc = _nf(ca, "run_calibration", "Calibration")
    out.append(("calibration", "", "Calibration.run_calibration -> ModelFittingDataTree",
                _b(_link_all_calls(rc, "ModelFittingDataTree", "pipeline_seed", SELF, "Calibration.run_calibration"))))
    fd = parse(repo, "pyxel/calibration/fitting_datatree.py")
    fx, ffield = _ctor_store(fd, "ModelFittingDataTree", "pipeline_seed", "ModelFittingDataTree")
    out.append(("calibration", "", "ModelFittingDataTree.__init__ stores pipeline_seed", fx))
    out.append(("calibration", "", "ModelFittingDataTree.pipeline_seed reads the stored field",
                _getter(fd, "ModelFittingDataTree", "pipeline_seed", ffield)))
    clsnode = _nclass(fd, "ModelFittingDataTree")
    out.append(("calibration", "", "ModelFittingDataTree.* -> run_pipeline",
                _b(_link_all_calls(clsnode, "run_pipeline", "pipeline_seed", SELF, "ModelFittingDataTree"))))
    # optimiser seed (pygmo's own generator is not modelled; only the plumbing is read)
    out.append(("calibration_pygmo", "", "run_calibration -> pg.set_global_rng_seed",
                _b(_link_all_calls(rc, "set_global_rng_seed", "seed", ("self.pygmo_seed", "self._pygmo_seed"),
                                   "Calibration.run_calibration"))))
    out.append(("calibration_pygmo", "", "run_calibration -> ArchipelagoDataTree",
                _b(_link_all_calls(rc, "ArchipelagoDataTree", "pygmo_seed", ("self.pygmo_seed", "self._pygmo_seed"),
                                   "Calibration.run_calibration"))))
    out.append(("calibration_pygmo", "", "ArchipelagoDataTree._build: island seeds drawn from default_rng(self.pygmo_seed), "
                "create_island hands its seed to pg.island", _b(_island_seeds_ok(repo))))
    return out


# ------------------------------------------------------------------ calibration: islands


def _build_fn(repo):
    tree = parse(repo, "pyxel/calibration/archipelago_datatree.py")
    return _nf(tree, "_build", "ArchipelagoDataTree")


def _assigns(fn):
    """(target, value) of every plain / annotated assignment of the function."""
    for n in ast.walk(fn):
        if isinstance(n, ast.Assign) and len(n.targets) == 1:
            yield n.targets[0], n.value
        elif isinstance(n, ast.AnnAssign) and n.value is not None:
            yield n.target, n.value


def _island_seeds_ok(repo) -> bool:
    """The list the islands are created from (whatever it is called: the name is taken from the place where it is
    USED, `map(create_island, <name>)` / `submit(create_island, x) for x in <name>`) holds values drawn from a local
    `default_rng(self.pygmo_seed)` (list comprehension, or append()s in a loop), and create_island hands its seed
    to pg.island.  _build is read after the general normalisations (the derivation may live in a private helper)."""
    fn = _build_fn(repo)
    _, seed_names, maker_names = _island_build(fn)
    rng_names = set()
    for tgt, v in _assigns(fn):
        if isinstance(tgt, ast.Name) and isinstance(v, ast.Call) and _callname(v).endswith("default_rng"):
            args = [ast.unparse(a) for a in v.args] + [ast.unparse(k.value) for k in v.keywords if k.arg == "seed"]
            if args == ["self.pygmo_seed"]:
                rng_names.add(tgt.id)

    def uses_rng(e):
        return bool({x.value.id for x in ast.walk(e) if isinstance(x, ast.Attribute) and isinstance(x.value, ast.Name)}
                    & rng_names)

    ok_names = set()
    for tgt, v in _assigns(fn):
        if isinstance(tgt, ast.Name) and tgt.id in seed_names and isinstance(v, ast.ListComp) and uses_rng(v.elt):
            ok_names.add(tgt.id)
    for c in ast.walk(fn):         # seeds = []; for ...: seeds.append(<drawn from rng>)
        if isinstance(c, ast.Call) and isinstance(c.func, ast.Attribute) and c.func.attr == "append" \
                and isinstance(c.func.value, ast.Name) and c.func.value.id in seed_names and len(c.args) == 1 \
                and uses_rng(c.args[0]):
            ok_names.add(c.func.value.id)
    seeds_from_rng = bool(seed_names) and seed_names <= ok_names
    if len(maker_names) != 1:
        raise TranslationError("_build: the two branches create the islands with different functions")
    ci = [f for f in ast.walk(fn) if isinstance(f, ast.FunctionDef) and f.name in maker_names]
    if len(ci) != 1:
        raise TranslationError("_build: expected one local function that creates an island from a seed")
    params = [a.arg for a in ci[0].args.args]
    isl = [c for c in ast.walk(ci[0]) if isinstance(c, ast.Call) and _callname(c).split(".")[-1] == "island"]
    hands = bool(params) and len(isl) == 1 and _kw(isl[0], "seed") == params[0]
    return seeds_from_rng and hands


def island_build(repo: Path) -> list[tuple[str, str]]:
    """For the `if self.parallel:` / else branches of _build: how the loop that push_back()s the islands
    iterates over them."""
    return _island_build(_build_fn(repo))[0]


def _island_build(fn):
    """-> (rows, names of the lists the islands are created from, names of the function that creates one island)"""
    seed_names, maker_names = set(), set()
    ifs = [n for n in fn.body if isinstance(n, ast.If) and ast.unparse(n.test) == "self.parallel"]
    if len(ifs) != 1 or not ifs[0].orelse:
        raise TranslationError("_build: expected one `if self.parallel: ... else: ...`")
    pushes_outside = [c for st in fn.body if st is not ifs[0] for c in ast.walk(st)
                      if isinstance(c, ast.Call) and _callname(c).endswith("push_back")]
    if pushes_outside:
        raise TranslationError("_build: push_back outside the parallel/sequential branches")

    def kind_of(stmts, where):
        env = {}
        loops = []
        for st in stmts:
            for n in ast.walk(st):
                if isinstance(n, ast.Assign) and len(n.targets) == 1 and isinstance(n.targets[0], ast.Name):
                    env[n.targets[0].id] = n.value
                elif isinstance(n, ast.AnnAssign) and n.value is not None and isinstance(n.target, ast.Name):
                    env[n.target.id] = n.value
                if isinstance(n, ast.For) and any(isinstance(c, ast.Call) and _callname(c).endswith("push_back")
                                                  for c in ast.walk(n)):
                    loops.append(n)
        if len(loops) != 1 or not isinstance(loops[0].target, ast.Name):
            raise TranslationError(f"_build ({where}): expected one loop that push_back()s the islands")
        loop = loops[0]
        var = loop.target.id
        pushes = [c for c in ast.walk(loop) if isinstance(c, ast.Call) and _callname(c).endswith("push_back")]
        if len(pushes) != 1 or len(pushes[0].args) != 1 or _callname(pushes[0]) != "self._pygmo_archi.push_back":
            raise TranslationError(f"_build ({where}): expected one self._pygmo_archi.push_back(<island>)")
        pushed = ast.unparse(pushes[0].args[0])
        it = loop.iter
        if isinstance(it, ast.Call) and _callname(it).split(".")[-1] == "tqdm" and it.args:
            it = it.args[0]                     # progress bar around the iterable
        seen = 0
        while isinstance(it, ast.Name) and it.id in env and seen < 5:
            it = env[it.id]
            seen += 1
        if not isinstance(it, ast.Call):
            # a list of futures read in order
            if isinstance(it, ast.ListComp) and pushed == f"{var}.result()" and _is_submit_comp(it):
                seed_names.add(it.generators[0].iter.id)
                maker_names.add(it.elt.args[0].id)
                return "BMap"
            raise TranslationError(f"_build ({where}): iterable `{ast.unparse(it)}` has a shape the translator does not know")
        nm = _callname(it)
        last = nm.split(".")[-1]
        if last == "map" and len(it.args) == 2 and isinstance(it.args[0], ast.Name) \
                and isinstance(it.args[1], ast.Name) and pushed == var:
            seed_names.add(it.args[1].id)
            maker_names.add(it.args[0].id)
            return "BMap"                       # builtin map / executor.map: results in submission order
        if last == "as_completed":
            return "BAsCompleted"
        raise TranslationError(f"_build ({where}): iterable `{ast.unparse(it)}` has a shape the translator does not know")

    rows = [("parallel", kind_of(ifs[0].body, "parallel")), ("sequential", kind_of(ifs[0].orelse, "sequential"))]
    return rows, seed_names, maker_names


def _is_submit_comp(lc: ast.ListComp) -> bool:
    if len(lc.generators) != 1 or lc.generators[0].ifs or not isinstance(lc.generators[0].iter, ast.Name):
        return False
    e = lc.elt
    return isinstance(e, ast.Call) and _callname(e).split(".")[-1] == "submit" and len(e.args) == 2 \
        and isinstance(e.args[0], ast.Name) and ast.unparse(e.args[1]) == ast.unparse(lc.generators[0].target)


def _with_seed_expr(w: ast.With):
    """The expression given to set_random_seed in `with set_random_seed(X)`; None if not such a with."""
    for it in w.items:
        c = it.context_expr
        if isinstance(c, ast.Call) and _callname(c).split(".")[-1] == "set_random_seed":
            args = [ast.unparse(a) for a in c.args] + [ast.unparse(k.value) for k in c.keywords if k.arg == "seed"]
            if len(args) != 1 or len(c.args) + len(c.keywords) != 1:
                fail(w, "set_random_seed must be given exactly one argument")
            return args[0]
    return None


# ------------------------------------------------------------------ model functions


def _functions(tree):
    """(qualname, node) of every function / method in a module (nested functions belong to their parent)."""
    out = []
    for n in tree.body:
        if isinstance(n, (ast.FunctionDef, ast.AsyncFunctionDef)):
            out.append((n.name, n, None))
        elif isinstance(n, ast.ClassDef):
            for f in n.body:
                if isinstance(f, (ast.FunctionDef, ast.AsyncFunctionDef)):
                    out.append((f"{n.name}.{f.name}", f, n.name))
    return out


SET_METHODS = ("union", "intersection", "difference", "symmetric_difference")
KEYVIEW = ("keys", "items")
ORDER_FREE = ("sorted", "len", "min", "max", "any", "all", "set", "frozenset", "sum", "bool")
MATERIALISE = ("list", "tuple", "enumerate", "iter", "next", "reversed", "zip", "map", "filter", "array", "asarray",
               "join", "fromiter", "concatenate", "stack", "vstack", "hstack", "dict", "OrderedDict", "deque")


def _set_env(scope_nodes) -> set[str]:
    """Names bound (by a plain assignment) to a set expression in the given statements - to a fixpoint."""
    env: set[str] = set()
    changed = True
    while changed:
        changed = False
        for n in scope_nodes:
            tgt = v = None
            if isinstance(n, ast.Assign) and len(n.targets) == 1:
                tgt, v = n.targets[0], n.value
            elif isinstance(n, ast.AnnAssign) and n.value is not None:
                tgt, v = n.target, n.value
            if isinstance(tgt, ast.Name) and tgt.id not in env and _is_set_expr(v, env):
                env.add(tgt.id)
                changed = True
    return env


def _is_set_expr(e, env) -> bool:
    """An expression whose iteration order is the hash order of its elements."""
    if isinstance(e, (ast.Set, ast.SetComp)):
        return True
    if isinstance(e, ast.Name):
        return e.id in env
    if isinstance(e, ast.Call):
        nm = _callname(e)
        if nm in ("set", "frozenset"):
            return True
        last = nm.split(".")[-1]
        if last in SET_METHODS and isinstance(e.func, ast.Attribute):
            return True
    if isinstance(e, ast.BinOp) and isinstance(e.op, (ast.BitAnd, ast.BitOr, ast.Sub, ast.BitXor)):
        def keyview(x):
            return isinstance(x, ast.Call) and isinstance(x.func, ast.Attribute) and x.func.attr in KEYVIEW and not x.args
        return _is_set_expr(e.left, env) or _is_set_expr(e.right, env) or keyview(e.left) or keyview(e.right)
    if isinstance(e, ast.IfExp):
        return _is_set_expr(e.body, env) or _is_set_expr(e.orelse, env)
    return False


def unordered_sites(node, module_env) -> list[ast.AST]:
    """Places in `node` where the hash order of a set becomes an ORDER: for-loops and comprehensions over a
    set expression, list()/tuple()/enumerate()/iter()/... of one, `*set`, set.pop().  sorted()/len()/min()/
    max()/membership tests do not count."""
    env = set(module_env) | _set_env(list(ast.walk(node)))
    out = []
    for n in ast.walk(node):
        if isinstance(n, (ast.For, ast.AsyncFor)) and _is_set_expr(n.iter, env):
            out.append(n)
        elif isinstance(n, ast.comprehension) and _is_set_expr(n.iter, env):
            out.append(n)
        elif isinstance(n, ast.Call):
            last = _callname(n).split(".")[-1]
            if last in MATERIALISE and any(_is_set_expr(a, env) for a in n.args):
                out.append(n)
            elif last == "pop" and isinstance(n.func, ast.Attribute) and _is_set_expr(n.func.value, env) and not n.args:
                out.append(n)
        elif isinstance(n, ast.Starred) and _is_set_expr(n.value, env):
            out.append(n)
    # a set comprehension / set(...) built FROM a set is order-free: drop comprehensions that feed a SetComp
    drop = set()
    for n in ast.walk(node):
        if isinstance(n, ast.SetComp):
            for g in n.generators:
                drop.add(id(g))
        if isinstance(n, ast.Call) and _callname(n).split(".")[-1] in ORDER_FREE:
            for a in n.args:
                if isinstance(a, (ast.GeneratorExp, ast.ListComp)):
                    for g in a.generators:
                        drop.add(id(g))
    return [n for n in out if id(n) not in drop]


SEED_NAME = ("seed", "pipeline_seed", "_pipeline_seed", "pygmo_seed", "_pygmo_seed")


def _ident(e):
    if isinstance(e, ast.Name):
        return e.id
    if isinstance(e, ast.Attribute):
        return e.attr
    return None


def truthiness_sites(node, extra_names=()) -> list[ast.AST]:
    """Expressions in `node` that test a seed for truthiness: the test of if / while / conditional expression /
    assert / comprehension filter, an operand of and / or / not, the argument of bool()."""
    names = set(SEED_NAME) | set(extra_names)

    def is_seed(e):
        return _ident(e) in names

    out = []

    def bool_ctx(e):
        if isinstance(e, ast.BoolOp):
            return          # its operands are visited as BoolOp operands below
        if isinstance(e, ast.UnaryOp) and isinstance(e.op, ast.Not):
            return          # visited as a Not operand below
        if is_seed(e):
            out.append(e)

    for n in ast.walk(node):
        if isinstance(n, (ast.If, ast.While, ast.IfExp)):
            bool_ctx(n.test)
        elif isinstance(n, ast.Assert):
            bool_ctx(n.test)
        elif isinstance(n, ast.comprehension):
            for t in n.ifs:
                bool_ctx(t)
        elif isinstance(n, ast.BoolOp):
            for v in n.values[:-1] if isinstance(n.op, ast.Or) else n.values:
                if is_seed(v):
                    out.append(v)
            if isinstance(n.op, ast.Or) and is_seed(n.values[-1]):
                pass        # `x or seed`: seed is returned, not tested
        elif isinstance(n, ast.UnaryOp) and isinstance(n.op, ast.Not):
            if is_seed(n.operand):
                out.append(n.operand)
        elif isinstance(n, ast.Call) and _callname(n) == "bool" and len(n.args) == 1 and is_seed(n.args[0]):
            out.append(n.args[0])
    return out


TRUTHINESS_FILES = (
    "pyxel/util/randomize.py", "pyxel/run.py", "pyxel/configuration/configuration.py",
    "pyxel/exposure/exposure.py", "pyxel/observation/observation.py", "pyxel/observation/observation_dask.py",
    "pyxel/calibration/calibration.py", "pyxel/calibration/fitting_datatree.py",
    "pyxel/calibration/archipelago_datatree.py", "pyxel/calibration/user_defined.py",
    "pyxel/pipelines/processor.py", "pyxel/pipelines/model_function.py",
)


def seed_truthiness(repo: Path):
    out = []
    files = [f for f in TRUTHINESS_FILES if (repo / f).exists()]
    files += sorted(str(p.relative_to(repo)) for p in (repo / "pyxel" / "models").rglob("*.py"))
    for rel in files:
        text = (repo / rel).read_text()
        if "seed" not in text:
            continue
        tree = parse(repo, rel)
        for qn, node, cls in _functions(tree):
            extra = ()
            if qn.split(".")[-1].endswith("seed") and any("setter" in ast.unparse(d) for d in node.decorator_list):
                extra = tuple(a.arg for a in node.args.args[1:])      # `value` of a *seed setter
            n = len(truthiness_sites(node, extra))
            if n:
                out.append((f"{rel[:-3].replace('/', '.')}.{qn}", n))
    return out


def _has_bracket(fn) -> bool:
    return any(isinstance(w, ast.With) and any(
        isinstance(i.context_expr, ast.Call) and _callname(i.context_expr).split(".")[-1] == "set_random_seed"
        for i in w.items) for w in ast.walk(fn))


def models(repo: Path):
    root = repo / "pyxel" / "models"
    if not root.is_dir():
        raise TranslationError("pyxel/models not found")
    mods = {}
    for p in sorted(root.rglob("*.py")):
        rel = p.relative_to(repo)
        mods[str(rel)] = parse(repo, str(rel))
    funcs = {}   # (file, qualname) -> node
    for rel, tree in mods.items():
        for qn, node, cls in _functions(tree):
            funcs[(rel, qn)] = (node, cls)

    def direct_draws(node):
        return [c for c in ast.walk(node) if isinstance(c, ast.Call) and _np_random_attr(c) is not None
                and _np_random_attr(c).split(".")[0] not in NON_DRAW]

    def state_calls(node):
        return [c for c in ast.walk(node) if isinstance(c, ast.Call) and _np_random_attr(c) in STATE_CALLS]

    # names that may draw / may reseed: least fixpoint over calls by (last component of the) name.
    # A class name draws if any of its methods does (constructing it or calling into it).
    def closure(seed_pred):
        names = set()
        for (rel, qn), (node, cls) in funcs.items():
            if seed_pred(node):
                names.add(qn.split(".")[-1])
                if cls:
                    names.add(cls)
        changed = True
        while changed:
            changed = False
            for (rel, qn), (node, cls) in funcs.items():
                short = qn.split(".")[-1]
                if short in names and (not cls or cls in names):
                    continue
                for c in ast.walk(node):
                    if isinstance(c, ast.Call):
                        nm = _callname(c).split(".")[-1]
                        if nm in names and nm not in ("__init__",):
                            if short not in names or (cls and cls not in names):
                                names.add(short)
                                if cls:
                                    names.add(cls)
                                changed = True
                            break
        names.discard("__init__")
        return names

    may_draw = closure(lambda n: bool(direct_draws(n)))
    may_reseed = closure(lambda n: bool(state_calls(n)))
    module_sets = {rel: _set_env(list(tree.body)) for rel, tree in mods.items()}
    node_rel = {id(node): rel for (rel, qn), (node, cls) in funcs.items()}
    may_unordered = closure(lambda n: bool(unordered_sites(n, module_sets.get(node_rel.get(id(n)), ()))))

    rows = []
    for (rel, qn), (node, cls) in sorted(funcs.items()):
        params = [a.arg for a in node.args.args + node.args.kwonlyargs + node.args.posonlyargs]
        if "seed" not in params:
            continue
        # a bracket that lives in a private helper of the same module / class (`with set_random_seed(seed)` moved into
        # a function that is handed `seed`) reads like the bracket written in place: inline such helpers first
        clsnode = next((c for c in mods[rel].body if isinstance(c, ast.ClassDef) and c.name == cls), None) if cls else None
        node = norm.normalised(node, mods[rel], clsnode, only=_has_bracket)
        inside_ids = set()
        bracket_seed = False
        n_brackets = 0
        for w in ast.walk(node):
            if isinstance(w, ast.With):
                e = _with_seed_expr(w)
                if e is None:
                    continue
                n_brackets += 1
                if e == "seed":
                    bracket_seed = True
                    for st in w.body:
                        for n in ast.walk(st):
                            inside_ids.add(id(n))
        sites = []
        for c in ast.walk(node):
            if not isinstance(c, ast.Call):
                continue
            a = _np_random_attr(c)
            nm = _callname(c).split(".")[-1]
            if (a is not None and a.split(".")[0] not in NON_DRAW) or (a is None and nm in may_draw and nm != qn):
                sites.append(c)
        n_in = sum(1 for c in sites if id(c) in inside_ids)
        n_out = len(sites) - n_in
        bare = len(state_calls(node)) + sum(
            1 for c in ast.walk(node) if isinstance(c, ast.Call) and _np_random_attr(c) is None
            and _callname(c).split(".")[-1] in may_reseed)
        unordered = len(unordered_sites(node, module_sets[rel])) + sum(
            1 for c in ast.walk(node) if isinstance(c, ast.Call) and _np_random_attr(c) is None
            and _callname(c).split(".")[-1] in may_unordered and _callname(c).split(".")[-1] != qn)
        truthy = len(truthiness_sites(node))
        modname = rel[:-3].replace("/", ".")
        rows.append(dict(name=f"{modname}.{qn}", file=rel, func=qn, inside=n_in, outside=n_out, bare_seed=bare,
                         bracket_seed=bracket_seed and n_brackets >= 1, unordered=unordered, seed_truthy=truthy))
    if not rows:
        raise TranslationError("no model function with a `seed` parameter found")
    return rows


def seed_sites(repo: Path):
    out = []
    root = repo / "pyxel"
    for p in sorted(root.rglob("*.py")):
        rel = str(p.relative_to(repo))
        if rel == "pyxel/util/randomize.py":
            continue
        text = p.read_text()
        if "random" not in text:
            continue
        tree = parse(repo, rel)
        for qn, node, cls in _functions(tree):
            n = sum(1 for c in ast.walk(node) if isinstance(c, ast.Call) and _np_random_attr(c) in STATE_CALLS)
            if n:
                out.append((f"{rel[:-3].replace('/', '.')}.{qn}", n))
        top = sum(1 for st in tree.body if not isinstance(st, (ast.FunctionDef, ast.ClassDef, ast.AsyncFunctionDef))
                  for c in ast.walk(st) if isinstance(c, ast.Call) and _np_random_attr(c) in STATE_CALLS)
        if top:
            out.append((f"{rel[:-3].replace('/', '.')}.<module>", top))
    return out


# ------------------------------------------------------------------ emission


def numba_sites(repo: Path):
    """Functions compiled by numba that call np.random.*: they draw from numba's private generator,
    which np.random.seed / set_random_seed does not reach."""
    out = []
    root = repo / "pyxel"
    for p in sorted(root.rglob("*.py")):
        rel = str(p.relative_to(repo))
        text = p.read_text()
        if "random" not in text or "numba" not in text:
            continue
        tree = parse(repo, rel)
        for qn, node, cls in _functions(tree):
            if not any("jit" in ast.unparse(d) for d in node.decorator_list):
                continue
            n = sum(1 for c in ast.walk(node) if isinstance(c, ast.Call) and _np_random_attr(c) is not None
                    and _np_random_attr(c).split(".")[0] not in NON_DRAW)
            if n:
                out.append((f"{rel[:-3].replace('/', '.')}.{qn}", n))
    return out


def analyse(repo: Path) -> dict:
    return dict(cfg=srs_cfg(repo), links=links(repo), models=models(repo), seed_sites=seed_sites(repo),
                numba_sites=numba_sites(repo), seed_truthiness=seed_truthiness(repo), island_build=island_build(repo))


def mangle(name: str) -> str:
    return "mrow_" + "".join(ch if ch.isalnum() else "_" for ch in name.replace("pyxel.models.", ""))


def cb(b: bool) -> str:
    return "true" if b else "false"


def cs(s: str) -> str:
    assert all(32 <= ord(c) < 127 and c != '"' for c in s), s
    return f'"{s}"%string'


def emit(a: dict) -> str:
    c = a["cfg"]
    lines = [HEADER, "From Coq Require Import ZArith List Bool String.", "From PyxelV Require Import Model.Rng.",
             "Import ListNotations.", "Open Scope Z_scope.", ""]
    lines.append("Definition src_srs_cfg : srs_cfg := {| save_before_seed := %s; reseeds := %s; "
                 "restore_on_normal := %s; restore_on_raise := %s |}." %
                 (cb(c["save_before_seed"]), cb(c["reseeds"]), cb(c["restore_on_normal"]), cb(c["restore_on_raise"])))
    lines.append("Definition src_links : list link := [")
    lines.append(";\n".join(f"  ({cs(m)}, {cs(e)}, {cs(l)}, {x})" for m, e, l, x in a["links"]))
    lines.append("].")
    for r in a["models"]:
        lines.append("Definition %s : model_row := {| m_name := %s; m_inside := %d; m_outside := %d; "
                     "m_bare_seed := %d; m_bracket_seed := %s; m_unordered := %d; m_seed_truthy := %d |}." %
                     (mangle(r["name"]), cs(r["name"]), r["inside"], r["outside"], r["bare_seed"], cb(r["bracket_seed"]),
                      r.get("unordered", 0), r.get("seed_truthy", 0)))
    lines.append("Definition src_seeded_models : list model_row := [" +
                 "; ".join(mangle(r["name"]) for r in a["models"]) + "].")
    sites = a["seed_sites"]
    lines.append("Definition src_seed_sites : list seed_site := " +
                 ("[" + "; ".join(f"({cs(n)}, {k})" for n, k in sites) + "]" if sites else "nil") + ".")
    nsites = a.get("numba_sites", [])
    lines.append("Definition src_numba_sites : list seed_site := " +
                 ("[" + "; ".join(f"({cs(n)}, {k})" for n, k in nsites) + "]" if nsites else "nil") + ".")
    tsites = a.get("seed_truthiness", [])
    lines.append("Definition src_seed_truthiness : list seed_site := " +
                 ("[" + "; ".join(f"({cs(n)}, {k})" for n, k in tsites) + "]" if tsites else "nil") + ".")
    ib = a.get("island_build", [])
    lines.append("Definition src_island_build : list build_row := " +
                 ("[" + "; ".join(f"({cs(n)}, {k})" for n, k in ib) + "]" if ib else "nil") + ".")
    return "\n".join(lines) + "\n"


def translate(repo: Path) -> str:
    return emit(analyse(repo))


# the unchanged tree (used only to keep a model available when translation fails)
FALLBACK_ANALYSIS = None  # filled lazily from /repo's committed shape below


def fallback() -> str:
    a = dict(
        cfg=dict(save_before_seed=True, reseeds=True, restore_on_normal=True, restore_on_raise=True),
        links=[(m, e, "fallback", XID if m != FALLBACK_OPEN_MODE else XDROP)
               for m in ("exposure", "observation", "observation_dask", "calibration", "calibration_pygmo")
               for e in (("", "ctor", "yaml", "setter", "override") if m != "calibration_pygmo" else ("",))],
        seed_truthiness=[], island_build=[("parallel", "BMap"), ("sequential", "BMap")],
        models=[dict(name=n, inside=1, outside=0, bare_seed=0, bracket_seed=True) for n in FALLBACK_MODELS],
        seed_sites=[],
        numba_sites=[("pyxel.models.charge_transfer.emccd_poisson.poisson_register", 1),
                     ("pyxel.models.charge_transfer.emccd_poisson_cic.poisson_register", 2),
                     ("pyxel.models.charge_transfer.emccd_poisson_cic.multiplication_register_poisson", 1)],
    )
    return emit(a)


FALLBACK_OPEN_MODE = ""   # no mode drops its seed (C04-F1 repaired)
FALLBACK_MODELS = [
    "pyxel.models.charge_collection.fixed_pattern_noise.fixed_pattern_noise",
    "pyxel.models.charge_generation.charge_deposition.charge_deposition",
    "pyxel.models.charge_generation.charge_deposition.charge_deposition_in_mct",
    "pyxel.models.charge_generation.cosmix.cosmix.cosmix",
    "pyxel.models.charge_generation.dark_current.dark_current",
    "pyxel.models.charge_generation.dark_current_induced.radiation_induced_dark_current",
    "pyxel.models.charge_generation.dark_current_rule07.dark_current_rule07",
    "pyxel.models.charge_generation.dark_current_saphira.dark_current_saphira",
    "pyxel.models.charge_generation.photoelectrons.simple_conversion",
    "pyxel.models.charge_generation.photoelectrons.conversion_with_qe_map",
    "pyxel.models.charge_generation.simple_dark_current.simple_dark_current",
    "pyxel.models.charge_measurement.nghxrg.nghxrg.nghxrg",
    "pyxel.models.charge_measurement.readout_noise.output_node_noise",
    "pyxel.models.charge_measurement.readout_noise.output_node_noise_cmos",
    "pyxel.models.charge_measurement.readout_noise.readout_noise_saphira",
    "pyxel.models.charge_measurement.reset_noise.ktc_noise",
    "pyxel.models.photon_collection.shot_noise.shot_noise",
]
FALLBACK = fallback()
