"""C04 translator: seed brackets and seed forwarding, read from the current source (fail closed).

Emits Gen_C04.v with
  src_srs_cfg        : what set_random_seed does for `seed is not None` (save point, reseeding, restore on
                       normal exit / on exception); seed None must be a bare `yield`
  src_links          : (mode, link, passes pipeline_seed on) for every call on the way from a running mode
                       to run_pipeline / to the fitting problem, and whether run_pipeline puts every
                       processor.run_pipeline call inside `with set_random_seed(seed=pipeline_seed)`
  src_seeded_models  : one row per function under pyxel/models/** that has a `seed` parameter: draw sites
                       (np.random.* / numpy.random.* calls, and calls into helpers that draw, followed
                       transitively by name inside pyxel/models) inside / outside the bracket, bare
                       np.random.seed / set_state calls, is the bracket given the `seed` argument
  src_seed_sites     : every np.random.seed / set_state call site in pyxel/ outside util/randomize.py
`analyse(repo)` returns the same facts as a Python dict (used by the harness to build programs).
"""
from __future__ import annotations

import ast
from pathlib import Path

from harness.core import TranslationError

from .common import HEADER, body_no_doc, fail, find_func, parse

NPR = ("np.random.", "numpy.random.")
STATE_CALLS = ("seed", "set_state")
NON_DRAW = ("seed", "set_state", "get_state", "default_rng", "Generator", "RandomState", "SeedSequence")


def _callname(call: ast.Call) -> str:
    try:
        return ast.unparse(call.func)
    except Exception:  # noqa: BLE001
        return ""


def _np_random_attr(call: ast.Call):
    nm = _callname(call)
    for pre in NPR:
        if nm.startswith(pre):
            return nm[len(pre):]
    return None


# ------------------------------------------------------------------ set_random_seed


def srs_cfg(repo: Path) -> dict:
    tree = parse(repo, "pyxel/util/randomize.py")
    fn = find_func(tree, "set_random_seed")
    decos = [ast.unparse(d) for d in fn.decorator_list]
    if decos not in (["contextmanager"], ["contextlib.contextmanager"]):
        fail(fn, "set_random_seed must be a @contextmanager generator")
    params = [a.arg for a in fn.args.args]
    if params != ["seed"]:
        fail(fn, "set_random_seed(seed) signature")
    body = body_no_doc(fn)
    if len(body) != 1 or not isinstance(body[0], ast.If):
        fail(fn, "body must be one `if seed is (not) None: ... else: ...`")
    node = body[0]
    t = node.test
    if not (isinstance(t, ast.Compare) and isinstance(t.left, ast.Name) and t.left.id == "seed"
            and len(t.ops) == 1 and isinstance(t.comparators[0], ast.Constant) and t.comparators[0].value is None):
        fail(t, "test must be `seed is not None` / `seed is None`")
    if isinstance(t.ops[0], ast.IsNot):
        some, none = node.body, node.orelse
    elif isinstance(t.ops[0], ast.Is):
        some, none = node.orelse, node.body
    else:
        fail(t, "test must use is / is not")
    none = [s for s in none if not isinstance(s, ast.Pass)]
    if not (len(none) == 1 and isinstance(none[0], ast.Expr) and isinstance(none[0].value, ast.Yield)
            and none[0].value.value is None):
        fail(node, "the seed-None branch must be a bare `yield`")

    # linearise the seeded branch: events on the normal path and on the path where `yield` raises
    ev_normal, ev_raise = [], []
    state = {"yielded": False, "n_yield": 0}

    def walk(stmts, in_try_finals):
        """in_try_finals: list of finalbodies enclosing the current position (innermost last)."""
        for st in stmts:
            if isinstance(st, ast.Pass):
                continue
            if isinstance(st, ast.Assign) and len(st.targets) == 1 and isinstance(st.targets[0], ast.Name) \
                    and isinstance(st.value, ast.Call) and _np_random_attr(st.value) == "get_state" \
                    and not st.value.args and not st.value.keywords:
                ev_normal.append(("save", st.targets[0].id))
                continue
            if isinstance(st, ast.Expr) and isinstance(st.value, ast.Call):
                a = _np_random_attr(st.value)
                c = st.value
                if a == "seed":
                    args = [ast.unparse(x) for x in c.args] + [ast.unparse(k.value) for k in c.keywords]
                    if args != ["seed"]:
                        fail(st, "np.random.seed must be given `seed`")
                    ev_normal.append(("seed", None))
                    continue
                if a == "set_state":
                    args = [x for x in c.args] + [k.value for k in c.keywords]
                    if len(args) != 1 or not isinstance(args[0], ast.Name):
                        fail(st, "np.random.set_state must be given the saved name")
                    ev_normal.append(("restore", args[0].id))
                    continue
                fail(st, "unexpected call in set_random_seed")
            if isinstance(st, ast.Expr) and isinstance(st.value, ast.Yield) and st.value.value is None:
                state["n_yield"] += 1
                ev_normal.append(("yield", None))
                # exception thrown into the generator here: the enclosing finally blocks run, innermost first
                ev_raise.extend(x for x in ev_normal)
                for fb in reversed(in_try_finals):
                    sub_n = []
                    _collect_simple(fb, sub_n)
                    ev_raise.extend(sub_n)
                continue
            if isinstance(st, ast.Try):
                if st.handlers or st.orelse:
                    fail(st, "try in set_random_seed may only have a finally block")
                walk(st.body, in_try_finals + [st.finalbody])
                walk(st.finalbody, in_try_finals)
                continue
            fail(st, "statement shape not accepted in set_random_seed")

    def _collect_simple(stmts, out):
        for st in stmts:
            if isinstance(st, ast.Pass):
                continue
            if isinstance(st, ast.Expr) and isinstance(st.value, ast.Call) and _np_random_attr(st.value) == "set_state":
                c = st.value
                args = [x for x in c.args] + [k.value for k in c.keywords]
                if len(args) != 1 or not isinstance(args[0], ast.Name):
                    fail(st, "np.random.set_state must be given the saved name")
                out.append(("restore", args[0].id))
                continue
            fail(st, "finally block of set_random_seed may only restore the state")

    walk(some, [])
    if state["n_yield"] != 1:
        fail(node, "the seeded branch must yield exactly once")
    kinds = [k for k, _ in ev_normal]
    iy = kinds.index("yield")
    pre = ev_normal[:iy]
    post = ev_normal[iy + 1:]
    saves = [(i, n) for i, (k, n) in enumerate(pre) if k == "save"]
    seeds = [i for i, (k, _) in enumerate(pre) if k == "seed"]
    if len(saves) > 1 or len(seeds) > 1 or any(k in ("save", "seed") for k, _ in post):
        fail(node, "more than one save/seed, or save/seed after the yield")
    saved_name = saves[0][1] if saves else None
    reseeds = bool(seeds)
    save_before = bool(saves) and (not seeds or saves[0][0] < seeds[0])

    def restores(evs):
        names = [n for k, n in evs if k == "restore"]
        if any(n != saved_name for n in names):
            fail(node, "set_state is given something else than the saved state")
        return bool(names) and saved_name is not None

    raise_tail = ev_raise[len(ev_normal[:iy + 1]):]
    return dict(save_before_seed=save_before, reseeds=reseeds, restore_on_normal=restores(post),
                restore_on_raise=restores(raise_tail))


# ------------------------------------------------------------------ mode plumbing


def _calls(scope: ast.AST, callee: str) -> list[ast.Call]:
    return [n for n in ast.walk(scope) if isinstance(n, ast.Call) and _callname(n).split(".")[-1] == callee
            and (_callname(n) == callee or _callname(n).endswith("." + callee))]


def _kw(call: ast.Call, name: str):
    for k in call.keywords:
        if k.arg == name:
            return ast.unparse(k.value)
    return None


def _link_all_calls(scope, callee, kw, accepted, where) -> bool:
    cs = _calls(scope, callee)
    if not cs:
        raise TranslationError(f"{where}: no call of {callee} found")
    return all(_kw(c, kw) in accepted for c in cs)


def _attr_roundtrip(tree, cls, attr, where) -> bool:
    """__init__ stores the ctor argument `attr`, and `self.<attr>` reads it back."""
    init = find_func(tree, "__init__", cls)
    if attr not in [a.arg for a in init.args.args + init.args.kwonlyargs]:
        return False
    stored = None
    for n in ast.walk(init):
        tgt = None
        if isinstance(n, ast.Assign) and len(n.targets) == 1:
            tgt, v = n.targets[0], n.value
        elif isinstance(n, ast.AnnAssign) and n.value is not None:
            tgt, v = n.target, n.value
        if tgt is not None and isinstance(tgt, ast.Attribute) and ast.unparse(tgt) in (f"self._{attr}", f"self.{attr}") \
                and isinstance(v, ast.Name) and v.id == attr:
            stored = ast.unparse(tgt)
    if stored is None:
        return False
    if stored == f"self.{attr}":
        return True
    # property getter returns the private field
    clsnode = [n for n in ast.walk(tree) if isinstance(n, ast.ClassDef) and n.name == cls][0]
    for f in clsnode.body:
        if isinstance(f, ast.FunctionDef) and f.name == attr and any(ast.unparse(d) == "property" for d in f.decorator_list):
            rets = [n for n in ast.walk(f) if isinstance(n, ast.Return)]
            return len(rets) == 1 and rets[0].value is not None and ast.unparse(rets[0].value) == stored
    return False


def links(repo: Path) -> list[tuple[str, str, bool]]:
    out = []
    SELF = ("self.pipeline_seed", "self._pipeline_seed")
    ARG = ("pipeline_seed",)

    # run_pipeline itself: every processor.run_pipeline(...) sits inside `with set_random_seed(seed=pipeline_seed)`
    ex = parse(repo, "pyxel/exposure/exposure.py")
    rp = find_func(ex, "run_pipeline")
    if "pipeline_seed" not in [a.arg for a in rp.args.args + rp.args.kwonlyargs]:
        raise TranslationError("run_pipeline has no pipeline_seed parameter")
    inner = [n for n in ast.walk(rp) if isinstance(n, ast.Call) and _callname(n) == "processor.run_pipeline"]
    if not inner:
        raise TranslationError("run_pipeline: no processor.run_pipeline call")
    covered = set()
    for w in ast.walk(rp):
        if isinstance(w, ast.With) and _with_seed_expr(w) == "pipeline_seed":
            for n in ast.walk(w):
                covered.add(id(n))
    bracket_ok = all(id(c) in covered for c in inner)
    for m in ("exposure", "observation", "observation_dask", "calibration"):
        out.append((m, "run_pipeline: whole run inside set_random_seed(pipeline_seed)", bracket_ok))

    out.append(("exposure", "Exposure stores pipeline_seed", _attr_roundtrip(ex, "Exposure", "pipeline_seed", "exposure")))
    out.append(("exposure", "Exposure.run_exposure -> run_pipeline",
                _link_all_calls(find_func(ex, "run_exposure", "Exposure"), "run_pipeline", "pipeline_seed", SELF,
                                "Exposure.run_exposure")))

    ob = parse(repo, "pyxel/observation/observation.py")
    stored = _attr_roundtrip(ob, "Observation", "pipeline_seed", "observation")
    out.append(("observation", "Observation stores pipeline_seed", stored))
    out.append(("observation_dask", "Observation stores pipeline_seed", stored))
    out.append(("observation", "Observation._run_single_pipeline -> run_pipeline",
                _link_all_calls(find_func(ob, "_run_single_pipeline", "Observation"), "run_pipeline",
                                "pipeline_seed", SELF, "Observation._run_single_pipeline")))
    out.append(("observation_dask", "Observation.run_pipelines -> run_pipelines_with_dask",
                _link_all_calls(find_func(ob, "run_pipelines", "Observation"), "run_pipelines_with_dask",
                                "pipeline_seed", SELF, "Observation.run_pipelines")))
    od = parse(repo, "pyxel/observation/observation_dask.py")
    rwd = find_func(od, "run_pipelines_with_dask")
    out.append(("observation_dask", "run_pipelines_with_dask -> first _run_pipelines_array_to_datatree",
                _link_all_calls(rwd, "_run_pipelines_array_to_datatree", "pipeline_seed", ARG, "run_pipelines_with_dask")))
    au = _calls(rwd, "apply_ufunc")
    if len(au) != 1:
        raise TranslationError("run_pipelines_with_dask: expected one apply_ufunc call")
    kwargs = [k.value for k in au[0].keywords if k.arg == "kwargs"]
    ok = False
    if len(kwargs) == 1 and isinstance(kwargs[0], ast.Dict):
        for k, v in zip(kwargs[0].keys, kwargs[0].values):
            if isinstance(k, ast.Constant) and k.value == "pipeline_seed" and ast.unparse(v) == "pipeline_seed":
                ok = True
    if not au[0].args or ast.unparse(au[0].args[0]) != "_run_pipelines_tuple_to_array":
        raise TranslationError("apply_ufunc no longer applies _run_pipelines_tuple_to_array")
    out.append(("observation_dask", "run_pipelines_with_dask -> apply_ufunc kwargs", ok))
    out.append(("observation_dask", "_run_pipelines_tuple_to_array -> _run_pipelines_array_to_datatree",
                _link_all_calls(find_func(od, "_run_pipelines_tuple_to_array"), "_run_pipelines_array_to_datatree",
                                "pipeline_seed", ARG, "_run_pipelines_tuple_to_array")))
    out.append(("observation_dask", "_run_pipelines_array_to_datatree -> run_pipeline",
                _link_all_calls(find_func(od, "_run_pipelines_array_to_datatree"), "run_pipeline",
                                "pipeline_seed", ARG, "_run_pipelines_array_to_datatree")))

    ca = parse(repo, "pyxel/calibration/calibration.py")
    out.append(("calibration", "Calibration stores pipeline_seed",
                _attr_roundtrip(ca, "Calibration", "pipeline_seed", "calibration")))
    rc = find_func(ca, "run_calibration", "Calibration")
    out.append(("calibration", "Calibration.run_calibration -> ModelFittingDataTree",
                _link_all_calls(rc, "ModelFittingDataTree", "pipeline_seed", SELF, "Calibration.run_calibration")))
    fd = parse(repo, "pyxel/calibration/fitting_datatree.py")
    out.append(("calibration", "ModelFittingDataTree stores pipeline_seed",
                _attr_roundtrip(fd, "ModelFittingDataTree", "pipeline_seed", "fitting")))
    clsnode = [n for n in ast.walk(fd) if isinstance(n, ast.ClassDef) and n.name == "ModelFittingDataTree"]
    if len(clsnode) != 1:
        raise TranslationError("class ModelFittingDataTree not found")
    out.append(("calibration", "ModelFittingDataTree.* -> run_pipeline",
                _link_all_calls(clsnode[0], "run_pipeline", "pipeline_seed", SELF, "ModelFittingDataTree")))
    # optimiser seed (pygmo's own generator is not modelled; only the plumbing is read)
    out.append(("calibration_pygmo", "run_calibration -> pg.set_global_rng_seed",
                _link_all_calls(rc, "set_global_rng_seed", "seed", ("self.pygmo_seed", "self._pygmo_seed"),
                                "Calibration.run_calibration")))
    out.append(("calibration_pygmo", "run_calibration -> ArchipelagoDataTree",
                _link_all_calls(rc, "ArchipelagoDataTree", "pygmo_seed", ("self.pygmo_seed", "self._pygmo_seed"),
                                "Calibration.run_calibration")))
    return out


def _with_seed_expr(w: ast.With):
    """The expression given to set_random_seed in `with set_random_seed(X)`; None if not such a with."""
    for it in w.items:
        c = it.context_expr
        if isinstance(c, ast.Call) and _callname(c).split(".")[-1] == "set_random_seed":
            args = [ast.unparse(a) for a in c.args] + [ast.unparse(k.value) for k in c.keywords if k.arg == "seed"]
            if len(args) != 1 or len(c.args) + len(c.keywords) != 1:
                fail(w, "set_random_seed must be given exactly one argument")
            return args[0]
    return None


# ------------------------------------------------------------------ model functions


def _functions(tree):
    """(qualname, node) of every function / method in a module (nested functions belong to their parent)."""
    out = []
    for n in tree.body:
        if isinstance(n, (ast.FunctionDef, ast.AsyncFunctionDef)):
            out.append((n.name, n, None))
        elif isinstance(n, ast.ClassDef):
            for f in n.body:
                if isinstance(f, (ast.FunctionDef, ast.AsyncFunctionDef)):
                    out.append((f"{n.name}.{f.name}", f, n.name))
    return out


def models(repo: Path):
    root = repo / "pyxel" / "models"
    if not root.is_dir():
        raise TranslationError("pyxel/models not found")
    mods = {}
    for p in sorted(root.rglob("*.py")):
        rel = p.relative_to(repo)
        mods[str(rel)] = parse(repo, str(rel))
    funcs = {}   # (file, qualname) -> node
    for rel, tree in mods.items():
        for qn, node, cls in _functions(tree):
            funcs[(rel, qn)] = (node, cls)

    def direct_draws(node):
        return [c for c in ast.walk(node) if isinstance(c, ast.Call) and _np_random_attr(c) is not None
                and _np_random_attr(c).split(".")[0] not in NON_DRAW]

    def state_calls(node):
        return [c for c in ast.walk(node) if isinstance(c, ast.Call) and _np_random_attr(c) in STATE_CALLS]

    # names that may draw / may reseed: least fixpoint over calls by (last component of the) name.
    # A class name draws if any of its methods does (constructing it or calling into it).
    def closure(seed_pred):
        names = set()
        for (rel, qn), (node, cls) in funcs.items():
            if seed_pred(node):
                names.add(qn.split(".")[-1])
                if cls:
                    names.add(cls)
        changed = True
        while changed:
            changed = False
            for (rel, qn), (node, cls) in funcs.items():
                short = qn.split(".")[-1]
                if short in names and (not cls or cls in names):
                    continue
                for c in ast.walk(node):
                    if isinstance(c, ast.Call):
                        nm = _callname(c).split(".")[-1]
                        if nm in names and nm not in ("__init__",):
                            if short not in names or (cls and cls not in names):
                                names.add(short)
                                if cls:
                                    names.add(cls)
                                changed = True
                            break
        names.discard("__init__")
        return names

    may_draw = closure(lambda n: bool(direct_draws(n)))
    may_reseed = closure(lambda n: bool(state_calls(n)))

    rows = []
    for (rel, qn), (node, cls) in sorted(funcs.items()):
        params = [a.arg for a in node.args.args + node.args.kwonlyargs + node.args.posonlyargs]
        if "seed" not in params:
            continue
        inside_ids = set()
        bracket_seed = False
        n_brackets = 0
        for w in ast.walk(node):
            if isinstance(w, ast.With):
                e = _with_seed_expr(w)
                if e is None:
                    continue
                n_brackets += 1
                if e == "seed":
                    bracket_seed = True
                    for st in w.body:
                        for n in ast.walk(st):
                            inside_ids.add(id(n))
        sites = []
        for c in ast.walk(node):
            if not isinstance(c, ast.Call):
                continue
            a = _np_random_attr(c)
            nm = _callname(c).split(".")[-1]
            if (a is not None and a.split(".")[0] not in NON_DRAW) or (a is None and nm in may_draw and nm != qn):
                sites.append(c)
        n_in = sum(1 for c in sites if id(c) in inside_ids)
        n_out = len(sites) - n_in
        bare = len(state_calls(node)) + sum(
            1 for c in ast.walk(node) if isinstance(c, ast.Call) and _np_random_attr(c) is None
            and _callname(c).split(".")[-1] in may_reseed)
        modname = rel[:-3].replace("/", ".")
        rows.append(dict(name=f"{modname}.{qn}", file=rel, func=qn, inside=n_in, outside=n_out, bare_seed=bare,
                         bracket_seed=bracket_seed and n_brackets >= 1))
    if not rows:
        raise TranslationError("no model function with a `seed` parameter found")
    return rows


def seed_sites(repo: Path):
    out = []
    root = repo / "pyxel"
    for p in sorted(root.rglob("*.py")):
        rel = str(p.relative_to(repo))
        if rel == "pyxel/util/randomize.py":
            continue
        text = p.read_text()
        if "random" not in text:
            continue
        tree = parse(repo, rel)
        for qn, node, cls in _functions(tree):
            n = sum(1 for c in ast.walk(node) if isinstance(c, ast.Call) and _np_random_attr(c) in STATE_CALLS)
            if n:
                out.append((f"{rel[:-3].replace('/', '.')}.{qn}", n))
        top = sum(1 for st in tree.body if not isinstance(st, (ast.FunctionDef, ast.ClassDef, ast.AsyncFunctionDef))
                  for c in ast.walk(st) if isinstance(c, ast.Call) and _np_random_attr(c) in STATE_CALLS)
        if top:
            out.append((f"{rel[:-3].replace('/', '.')}.<module>", top))
    return out


# ------------------------------------------------------------------ emission


def numba_sites(repo: Path):
    """Functions compiled by numba that call np.random.*: they draw from numba's private generator,
    which np.random.seed / set_random_seed does not reach."""
    out = []
    root = repo / "pyxel"
    for p in sorted(root.rglob("*.py")):
        rel = str(p.relative_to(repo))
        text = p.read_text()
        if "random" not in text or "numba" not in text:
            continue
        tree = parse(repo, rel)
        for qn, node, cls in _functions(tree):
            if not any("jit" in ast.unparse(d) for d in node.decorator_list):
                continue
            n = sum(1 for c in ast.walk(node) if isinstance(c, ast.Call) and _np_random_attr(c) is not None
                    and _np_random_attr(c).split(".")[0] not in NON_DRAW)
            if n:
                out.append((f"{rel[:-3].replace('/', '.')}.{qn}", n))
    return out


def analyse(repo: Path) -> dict:
    return dict(cfg=srs_cfg(repo), links=links(repo), models=models(repo), seed_sites=seed_sites(repo),
                numba_sites=numba_sites(repo))


def mangle(name: str) -> str:
    return "mrow_" + "".join(ch if ch.isalnum() else "_" for ch in name.replace("pyxel.models.", ""))


def cb(b: bool) -> str:
    return "true" if b else "false"


def cs(s: str) -> str:
    assert all(32 <= ord(c) < 127 and c != '"' for c in s), s
    return f'"{s}"%string'


def emit(a: dict) -> str:
    c = a["cfg"]
    lines = [HEADER, "From Coq Require Import ZArith List Bool String.", "From PyxelV Require Import Model.Rng.",
             "Import ListNotations.", "Open Scope Z_scope.", ""]
    lines.append("Definition src_srs_cfg : srs_cfg := {| save_before_seed := %s; reseeds := %s; "
                 "restore_on_normal := %s; restore_on_raise := %s |}." %
                 (cb(c["save_before_seed"]), cb(c["reseeds"]), cb(c["restore_on_normal"]), cb(c["restore_on_raise"])))
    lines.append("Definition src_links : list link := [")
    lines.append(";\n".join(f"  ({cs(m)}, {cs(l)}, {cb(ok)})" for m, l, ok in a["links"]))
    lines.append("].")
    for r in a["models"]:
        lines.append("Definition %s : model_row := {| m_name := %s; m_inside := %d; m_outside := %d; "
                     "m_bare_seed := %d; m_bracket_seed := %s |}." %
                     (mangle(r["name"]), cs(r["name"]), r["inside"], r["outside"], r["bare_seed"], cb(r["bracket_seed"])))
    lines.append("Definition src_seeded_models : list model_row := [" +
                 "; ".join(mangle(r["name"]) for r in a["models"]) + "].")
    sites = a["seed_sites"]
    lines.append("Definition src_seed_sites : list seed_site := " +
                 ("[" + "; ".join(f"({cs(n)}, {k})" for n, k in sites) + "]" if sites else "nil") + ".")
    nsites = a.get("numba_sites", [])
    lines.append("Definition src_numba_sites : list seed_site := " +
                 ("[" + "; ".join(f"({cs(n)}, {k})" for n, k in nsites) + "]" if nsites else "nil") + ".")
    return "\n".join(lines) + "\n"


def translate(repo: Path) -> str:
    return emit(analyse(repo))


# the unchanged tree (used only to keep a model available when translation fails)
FALLBACK_ANALYSIS = None  # filled lazily from /repo's committed shape below


def fallback() -> str:
    a = dict(
        cfg=dict(save_before_seed=True, reseeds=True, restore_on_normal=True, restore_on_raise=True),
        links=[(m, "fallback", m != "calibration") for m in
               ("exposure", "observation", "observation_dask", "calibration", "calibration_pygmo")],
        models=[dict(name=n, inside=1, outside=0, bare_seed=0, bracket_seed=True) for n in FALLBACK_MODELS],
        seed_sites=[("pyxel.models.phasing.pulse_processing.pulse_processing", 1)],
        numba_sites=[("pyxel.models.charge_transfer.emccd_poisson.poisson_register", 1),
                     ("pyxel.models.charge_transfer.emccd_poisson_cic.poisson_register", 2),
                     ("pyxel.models.charge_transfer.emccd_poisson_cic.multiplication_register_poisson", 1)],
    )
    return emit(a)


FALLBACK_MODELS = [
    "pyxel.models.charge_collection.fixed_pattern_noise.fixed_pattern_noise",
    "pyxel.models.charge_generation.charge_deposition.charge_deposition",
    "pyxel.models.charge_generation.charge_deposition.charge_deposition_in_mct",
    "pyxel.models.charge_generation.cosmix.cosmix.cosmix",
    "pyxel.models.charge_generation.dark_current.dark_current",
    "pyxel.models.charge_generation.dark_current_induced.radiation_induced_dark_current",
    "pyxel.models.charge_generation.dark_current_rule07.dark_current_rule07",
    "pyxel.models.charge_generation.dark_current_saphira.dark_current_saphira",
    "pyxel.models.charge_generation.photoelectrons.simple_conversion",
    "pyxel.models.charge_generation.photoelectrons.conversion_with_qe_map",
    "pyxel.models.charge_generation.simple_dark_current.simple_dark_current",
    "pyxel.models.charge_measurement.nghxrg.nghxrg.nghxrg",
    "pyxel.models.charge_measurement.readout_noise.output_node_noise",
    "pyxel.models.charge_measurement.readout_noise.output_node_noise_cmos",
    "pyxel.models.charge_measurement.readout_noise.readout_noise_saphira",
    "pyxel.models.charge_measurement.reset_noise.ktc_noise",
    "pyxel.models.photon_collection.shot_noise.shot_noise",
]
FALLBACK = fallback()
