"""C15: behaviour-preserving normalisation of a function's AST before the (fail-closed) table extraction.

`normalised(repo, rel, name, anchors)` returns a copy of the function `name` of file `rel` rewritten into ONE canonical
shape by general, semantics-preserving rules (nothing here looks at the text of a particular rewrite):

  clean      docstrings, `pass`, string statements, logging / warnings calls, bare annotations are dropped;
             `x: T = e` becomes `x = e`
  match      `match <name/attribute>: case <value>|<value>: ... case _: ...` (no guards, no captures) becomes the
             if / elif chain on `==` (`is` for None / True / False)
  keywords   a call of a function defined in the same file gets its positional arguments as keywords (written order kept)
  inline     calls of helper functions defined in the same file (or imported from a module of the same package) that are
             not anchors of the translator themselves:
               - a helper whose body is `return <expression>` is substituted as an expression (simple arguments only)
               - a helper called as a statement / `t = helper(...)` / `return helper(...)` is spliced in, its early returns
                 turned into nested if / else first, its `return e` into `t = e`; parameters are bound by name (simple
                 arguments) or by an explicit assignment; its locals are renamed when they collide
  constants  a name that is never bound in the function and has exactly one module-level assignment to a number, a
             negated number or a tuple of numbers is replaced by that value
  walrus     `(x := E)` that is the first thing a simple statement / an `if` test evaluates is hoisted: `x = E` in front
  tryelse    `try: B except ...: <ends in raise/return> else: E` (no finally) becomes the try followed by E
  partial    `f = partial(g, ...)` used once, as the callee of the first call the next statement evaluates, is merged into
             that call (names / constants or call-free arguments only)
  ifexp      `t = a if c else b` / `return a if c else b` become if / else statements
  polarity   `if not c: A else: B` becomes `if c: B else: A`
  sink       `if c: x = A else: x = B` directly followed by `return x` becomes `if c: return A else: return B`
  flatten    `if c: <ends in raise/return> else: R` becomes `if c: ...` followed by R (guard clause form); the mirrored form
             with the terminating branch in the else becomes `if not c: ...` followed by the other branch
  default    `x = e1` directly followed by `if c: x = e2` (e1 a plain name / constant - something that cannot raise)
             becomes `if c': x = e2' else: x = e1` with x replaced by e1 in c and e2; the overriding assignment may sit in
             `try: x = e2 except ...: <ends in raise>` (handlers that do not read x): the try moves into the branch with it
  temp       `x = E` directly followed by `return x` / `t = x` (x not used again) becomes `return E` / `t = E`; a call-free
             E used once in the directly following simple, call-free statement is substituted there; ANY E (calls too) is
             folded into the directly following return / assignment / expression statement when its single use is
             evaluated unconditionally and before everything else of that statement except constants and lookups of
             names / attribute chains that are not rooted at a local or parameter (`np.random.binomial`, a module-level
             function): the order of all effects is then unchanged
  alias      a local bound exactly once, at the top level of the function, to a name, a constant, an attribute chain or an
             arithmetic / comparison expression over names and constants or a (nested) list / tuple display of such (then
             only if the local is never mutated, compared by identity or handed to a call other than the known pure ones)
             is replaced by that expression at every later use that no intervening statement can have made stale (a store to
             any part of the chain or to one of its names, or - for attribute chains - any call that is not a known pure
             function, kills the alias: the remaining uses keep the local's name and the extraction fails closed on them);
             the assignment is dropped when no use is left

Anything that does not fit a rule is left as it is - the extraction then accepts or refuses it as before.
"""
from __future__ import annotations

import ast
import copy
from pathlib import Path

from .common import parse

LOG_ROOTS = {"logging", "logger", "log", "LOGGER", "_logger", "_log", "warnings"}
PURE_CALLS = {"len", "isinstance", "float", "int", "bool", "abs", "min", "max", "np.array", "np.asarray", "np.all",
              "np.any", "np.isfinite", "np.isnan", "np.shape", "np.ndim", "type", "str", "repr", "tuple", "list"}
MAX_INLINE_DEPTH = 3


# --------------------------------------------------------------------------------------------------- small helpers

def _is_doc(st: ast.stmt) -> bool:
    return isinstance(st, ast.Expr) and isinstance(st.value, ast.Constant) and isinstance(st.value.value, str)


def _root(node: ast.AST):
    while isinstance(node, (ast.Attribute, ast.Subscript, ast.Call)):
        node = node.func if isinstance(node, ast.Call) else node.value
    return node.id if isinstance(node, ast.Name) else None


def _is_log(st: ast.stmt) -> bool:
    return isinstance(st, ast.Expr) and isinstance(st.value, ast.Call) and _root(st.value.func) in LOG_ROOTS \
        and isinstance(st.value.func, ast.Attribute)


def _chain(node: ast.AST) -> bool:
    """Name or attribute chain rooted at a name"""
    while isinstance(node, ast.Attribute):
        node = node.value
    return isinstance(node, ast.Name)


def _simple(node: ast.AST) -> bool:
    if isinstance(node, ast.Constant):
        return True
    if isinstance(node, ast.UnaryOp) and isinstance(node.op, ast.USub) and isinstance(node.operand, ast.Constant):
        return True
    return _chain(node)


def _blocks(st: ast.stmt):
    for f in ("body", "orelse", "finalbody"):
        b = getattr(st, f, None)
        if isinstance(b, list) and b and isinstance(b[0], ast.stmt):
            yield f, b
    if isinstance(st, ast.Try):
        for h in st.handlers:
            yield "handler", h.body
    if isinstance(st, ast.Match):
        for c in st.cases:
            yield "case", c.body


def _map_blocks(stmts: list, fn) -> list:
    """apply `fn` (list -> list) to every nested statement list, bottom-up, then to this one"""
    for st in stmts:
        for f in ("body", "orelse", "finalbody"):
            b = getattr(st, f, None)
            if isinstance(b, list) and (not b or isinstance(b[0], ast.stmt)) and not isinstance(st, ast.Match):
                setattr(st, f, _map_blocks(b, fn))
        if isinstance(st, ast.Try):
            for h in st.handlers:
                h.body = _map_blocks(h.body, fn)
        if isinstance(st, ast.Match):
            for c in st.cases:
                c.body = _map_blocks(c.body, fn)
    return fn(stmts)


def _terminal(block: list) -> bool:
    if not block:
        return False
    last = block[-1]
    if isinstance(last, (ast.Raise, ast.Return)):
        return True
    if isinstance(last, ast.If) and last.orelse:
        return _terminal(last.body) and _terminal(last.orelse)
    if isinstance(last, ast.Try) and not last.finalbody and not last.orelse:
        return _terminal(last.body) and all(_terminal(h.body) for h in last.handlers)
    return False


def _reraising_try(st: ast.stmt) -> bool:
    """try: ... except ...: <ends in raise> (no else / finally): a `return e` at the end of the try body is the same as
    binding e there and returning after the statement, when nothing follows"""
    return (isinstance(st, ast.Try) and not st.finalbody and not st.orelse and st.handlers
            and all(h.body and isinstance(h.body[-1], ast.Raise) for h in st.handlers)
            and not any(isinstance(n, ast.Return) for h in st.handlers for b in h.body for n in ast.walk(b)))


def _stored_names(node: ast.AST) -> set:
    out = set()
    for n in ast.walk(node):
        if isinstance(n, ast.Name) and isinstance(n.ctx, (ast.Store, ast.Del)):
            out.add(n.id)
        elif isinstance(n, (ast.Import, ast.ImportFrom)):
            out |= {(a.asname or a.name).split(".")[0] for a in n.names}
        elif isinstance(n, (ast.FunctionDef, ast.ClassDef)):
            out.add(n.name)
    return out


def _loads(node: ast.AST, name: str) -> int:
    return sum(1 for n in ast.walk(node) if isinstance(n, ast.Name) and n.id == name and isinstance(n.ctx, ast.Load))


class _Subst(ast.NodeTransformer):
    """replace loads of names by expressions"""

    def __init__(self, m: dict):
        self.m = m

    def visit_Name(self, node):
        if isinstance(node.ctx, ast.Load) and node.id in self.m:
            return copy.deepcopy(self.m[node.id])
        return node


class _Rename(ast.NodeTransformer):
    def __init__(self, m: dict):
        self.m = m

    def visit_Name(self, node):
        if node.id in self.m:
            return ast.copy_location(ast.Name(id=self.m[node.id], ctx=node.ctx), node)
        return node


def _not(test: ast.AST) -> ast.AST:
    if isinstance(test, ast.UnaryOp) and isinstance(test.op, ast.Not):
        return test.operand
    return ast.UnaryOp(op=ast.Not(), operand=test)


# --------------------------------------------------------------------------------------------------- passes

def p_clean(stmts: list) -> list:
    out = []
    for st in stmts:
        if _is_doc(st) or isinstance(st, ast.Pass) or _is_log(st):
            continue
        if isinstance(st, ast.AnnAssign):
            if st.value is None:
                continue
            st = ast.copy_location(ast.Assign(targets=[st.target], value=st.value), st)
        out.append(st)
    return out


def _pattern_test(subj: ast.AST, pat: ast.pattern):
    if isinstance(pat, ast.MatchValue):
        return ast.Compare(left=copy.deepcopy(subj), ops=[ast.Eq()], comparators=[pat.value])
    if isinstance(pat, ast.MatchSingleton):
        return ast.Compare(left=copy.deepcopy(subj), ops=[ast.Is()], comparators=[ast.Constant(value=pat.value)])
    if isinstance(pat, ast.MatchOr):
        parts = [_pattern_test(subj, p) for p in pat.patterns]
        if any(p is None for p in parts):
            return None
        return ast.BoolOp(op=ast.Or(), values=parts)
    return None


def p_match(stmts: list) -> list:
    out = []
    for st in stmts:
        if isinstance(st, ast.Match) and _chain(st.subject) and all(c.guard is None for c in st.cases):
            tests, ok = [], True
            for i, c in enumerate(st.cases):
                if isinstance(c.pattern, ast.MatchAs) and c.pattern.pattern is None and c.pattern.name is None:
                    ok = ok and i == len(st.cases) - 1
                    tests.append(None)
                else:
                    t = _pattern_test(st.subject, c.pattern)
                    ok = ok and t is not None
                    tests.append(t)
            if ok and tests and tests[0] is not None:
                chain = None
                for t, c in reversed(list(zip(tests, st.cases))):
                    if t is None:
                        chain = list(c.body)
                    else:
                        node = ast.copy_location(ast.If(test=t, body=list(c.body), orelse=chain or []), c.body[0])
                        chain = [node]
                out.extend(ast.fix_missing_locations(n) for n in chain)
                continue
        out.append(st)
    return out


def p_ifexp(stmts: list) -> list:
    out = []
    for st in stmts:
        if isinstance(st, ast.Assign) and isinstance(st.value, ast.IfExp) and len(st.targets) == 1 \
                and _chain(st.targets[0]):
            v = st.value
            a = ast.Assign(targets=[copy.deepcopy(st.targets[0])], value=v.body)
            b = ast.Assign(targets=[copy.deepcopy(st.targets[0])], value=v.orelse)
            st = ast.copy_location(ast.If(test=v.test, body=[a], orelse=[b]), st)
            ast.fix_missing_locations(st)
        elif isinstance(st, ast.Return) and isinstance(st.value, ast.IfExp):
            v = st.value
            st = ast.copy_location(ast.If(test=v.test, body=[ast.Return(value=v.body)],
                                          orelse=[ast.Return(value=v.orelse)]), st)
            ast.fix_missing_locations(st)
        out.append(st)
    return out


def p_polarity(stmts: list) -> list:
    for st in stmts:
        if isinstance(st, ast.If) and st.body and st.orelse and isinstance(st.test, ast.UnaryOp) \
                and isinstance(st.test.op, ast.Not) and not (len(st.orelse) == 1 and isinstance(st.orelse[0], ast.If)):
            st.test, st.body, st.orelse = st.test.operand, st.orelse, st.body
    return stmts


def _single_assign(block: list):
    if len(block) == 1 and isinstance(block[0], ast.Assign) and len(block[0].targets) == 1 \
            and isinstance(block[0].targets[0], ast.Name):
        return block[0].targets[0].id, block[0].value
    return None, None


def p_sink(stmts: list) -> list:
    out, i = [], 0
    while i < len(stmts):
        st = stmts[i]
        nxt = stmts[i + 1] if i + 1 < len(stmts) else None
        if isinstance(st, ast.If) and st.orelse and isinstance(nxt, ast.Return) and isinstance(nxt.value, ast.Name):
            n1, v1 = _single_assign(st.body)
            n2, v2 = _single_assign(st.orelse)
            if n1 is not None and n1 == n2 == nxt.value.id and not _loads(st.test, n1):
                st.body = [ast.copy_location(ast.Return(value=v1), st.body[0])]
                st.orelse = [ast.copy_location(ast.Return(value=v2), st.orelse[0])]
                out.append(st)
                i += 2
                continue
        out.append(st)
        i += 1
    return out


def p_flatten(stmts: list) -> list:
    out = []
    for st in stmts:
        if isinstance(st, ast.If) and st.body and st.orelse:
            if _terminal(st.body):
                rest, st.orelse = st.orelse, []
                out.append(st)
                out.extend(p_flatten(rest))
                continue
            if _terminal(st.orelse):
                rest = st.body
                st.test, st.body, st.orelse = ast.copy_location(_not(st.test), st.test), st.orelse, []
                ast.fix_missing_locations(st)
                out.append(st)
                out.extend(p_flatten(rest))
                continue
        out.append(st)
    return out


def _in_reraising_try(block: list):
    """the single statement of `block`, looked for through `try: <one statement> except ...: <ends in raise>` wrappers"""
    if len(block) != 1:
        return None
    st = block[0]
    while _reraising_try(st):
        if len(st.body) != 1:
            return None
        st = st.body[0]
    return st


def _handlers_of(block: list):
    out, st = [], block[0] if len(block) == 1 else None
    while st is not None and _reraising_try(st):
        out.extend(h for h in st.handlers)
        st = st.body[0] if len(st.body) == 1 else None
    return out


def p_default(stmts: list) -> list:
    out, i = [], 0
    while i < len(stmts):
        st = stmts[i]
        nxt = stmts[i + 1] if i + 1 < len(stmts) else None
        if isinstance(st, ast.Assign) and len(st.targets) == 1 and isinstance(st.targets[0], ast.Name) \
                and isinstance(st.value, (ast.Name, ast.Constant)) and isinstance(nxt, ast.If) and not nxt.orelse:
            x = st.targets[0].id
            inner = _in_reraising_try(nxt.body)           # the assignment itself, possibly inside `try: ... except: raise`
            n1, _ = _single_assign([inner]) if inner is not None else (None, None)
            if n1 == x and not any(_loads(h, x) for h in _handlers_of(nxt.body)):
                test = nxt.test
                if _loads(test, x):
                    test = _Subst({x: st.value}).visit(copy.deepcopy(test))
                if not _loads(inner.value, x) or _simple(st.value):
                    if _loads(inner.value, x):
                        inner.value = _Subst({x: st.value}).visit(inner.value)
                    nxt.test = test
                    nxt.orelse = [st]
                    ast.fix_missing_locations(nxt)
                    out.append(nxt)
                    i += 2
                    continue
        out.append(st)
        i += 1
    return out


def _pure_expr(node: ast.AST) -> bool:
    """no call (other than the known pure ones), no await / yield / walrus / comprehension"""
    for n in ast.walk(node):
        if isinstance(n, (ast.Await, ast.Yield, ast.YieldFrom, ast.NamedExpr, ast.ListComp, ast.SetComp, ast.DictComp,
                          ast.GeneratorExp, ast.Lambda)):
            return False
    return not _has_impure_call(node)


def _eval_children(node: ast.AST):
    """sub-expressions in evaluation order, only those that are evaluated unconditionally; None = order not known"""
    if isinstance(node, ast.Call):
        if any(isinstance(a, ast.Starred) for a in node.args) or any(k.arg is None for k in node.keywords):
            return None
        return [node.func] + list(node.args) + [k.value for k in node.keywords]
    if isinstance(node, ast.Attribute) and isinstance(node.ctx, ast.Load):
        return [node.value]
    if isinstance(node, ast.BinOp):
        return [node.left, node.right]
    if isinstance(node, ast.UnaryOp):
        return [node.operand]
    if isinstance(node, ast.Compare):
        return [node.left, node.comparators[0]] if len(node.ops) == 1 else None
    if isinstance(node, ast.Subscript) and isinstance(node.ctx, ast.Load):
        return [node.value, node.slice]
    if isinstance(node, (ast.List, ast.Tuple)) and isinstance(node.ctx, ast.Load):
        return None if any(isinstance(e, ast.Starred) for e in node.elts) else list(node.elts)
    if isinstance(node, (ast.Return, ast.Expr)):
        return [node.value] if node.value is not None else []
    if isinstance(node, ast.Assign):
        return [node.value]                 # the targets are evaluated after the value
    if isinstance(node, ast.BoolOp):
        return [node.values[0]]             # the other operands are evaluated conditionally
    if isinstance(node, ast.IfExp):
        return [node.test]
    if isinstance(node, ast.NamedExpr):
        return [node.value]
    return None


def _first_evaluated(node: ast.AST, is_target, local_names: set) -> bool:
    """the single sub-expression of `node` selected by `is_target` is evaluated unconditionally, and everything evaluated
    before it is a constant or the lookup of a name / attribute chain that is not rooted at a local of the function (a
    module, a module-level function): then `x = E` directly before `node` may be folded into its single use in `node`
    (or a walrus at that place hoisted in front of the statement) whatever E does"""
    if is_target(node):
        return True
    kids = _eval_children(node)
    if kids is None:
        return False
    for c in kids:
        if any(is_target(n) for n in ast.walk(c)):
            return _first_evaluated(c, is_target, local_names)
        if isinstance(c, ast.Constant):
            continue
        if _chain(c) and _root(c) not in local_names and all(isinstance(n.ctx, ast.Load) for n in ast.walk(c)
                                                               if isinstance(n, (ast.Name, ast.Attribute))):
            continue
        return False
    return False


def _is_load_of(x: str):
    return lambda n: isinstance(n, ast.Name) and n.id == x and isinstance(n.ctx, ast.Load)


def p_walrus(stmts: list, local_names: set) -> list:
    """`if (x := E) <rest of test>:` / `t = f((x := E))` / `return ...(x := E)...` with the walrus evaluated first and
    unconditionally becomes `x = E` followed by the statement reading x"""
    out = []
    for st in stmts:
        head = st.test if isinstance(st, ast.If) else st if isinstance(st, (ast.Assign, ast.Return, ast.Expr)) else None
        if head is not None:
            ws = [n for n in ast.walk(head) if isinstance(n, ast.NamedExpr)]
            if len(ws) == 1 and isinstance(ws[0].target, ast.Name) and not _loads(ws[0].value, ws[0].target.id) \
                    and not any(isinstance(n, (ast.Lambda, ast.ListComp, ast.SetComp, ast.DictComp, ast.GeneratorExp))
                                for n in ast.walk(head)) \
                    and _first_evaluated(head, lambda n: n is ws[0], local_names | {ws[0].target.id}):
                w = ws[0]
                x = w.target.id
                # loads of x elsewhere in the head come after the walrus (it is evaluated first): they read the new value
                pre = ast.copy_location(ast.Assign(targets=[ast.Name(id=x, ctx=ast.Store())], value=w.value), st)

                class R(ast.NodeTransformer):
                    def visit_NamedExpr(self, node):
                        return ast.copy_location(ast.Name(id=x, ctx=ast.Load()), node) if node is w else node
                if isinstance(st, ast.If):
                    st.test = R().visit(st.test)
                else:
                    st = R().visit(st)
                ast.fix_missing_locations(pre)
                ast.fix_missing_locations(st)
                out.extend([pre, st])
                continue
        out.append(st)
    return out


def p_partial(stmts: list, fn_body_ref: list, local_names: set) -> list:
    """`f = partial(g, a.., k=v..)` directly followed by a simple statement whose first evaluated part is the only use of
    f, the call `f(b.., k2=w..)`, becomes that statement with `g(a.., b.., k=v.., k2=w..)`: the partial's arguments are
    names / constants (or everything is call-free), so evaluating them at the call instead changes nothing"""
    out, i = [], 0
    while i < len(stmts):
        st = stmts[i]
        nxt = stmts[i + 1] if i + 1 < len(stmts) else None
        if isinstance(st, ast.Assign) and len(st.targets) == 1 and isinstance(st.targets[0], ast.Name) \
                and isinstance(st.value, ast.Call) and ast.unparse(st.value.func) in ("partial", "functools.partial") \
                and st.value.args and isinstance(nxt, (ast.Assign, ast.Return, ast.Expr)):
            f, pc = st.targets[0].id, st.value
            g, pargs, pkws = pc.args[0], pc.args[1:], pc.keywords
            stores = sum(1 for b in fn_body_ref for n in ast.walk(b)
                         if isinstance(n, ast.Name) and n.id == f and not isinstance(n.ctx, ast.Load))
            calls = [n for n in ast.walk(nxt) if isinstance(n, ast.Call) and isinstance(n.func, ast.Name) and n.func.id == f]
            pvals = list(pargs) + [k.value for k in pkws]
            if stores == 1 and sum(_loads(b, f) for b in fn_body_ref) == 1 and len(calls) == 1 and _chain(g) \
                    and _root(g) not in local_names \
                    and not any(isinstance(a, ast.Starred) for a in list(pargs) + list(calls[0].args)) \
                    and all(k.arg is not None for k in list(pkws) + list(calls[0].keywords)) \
                    and not ({k.arg for k in pkws} & {k.arg for k in calls[0].keywords}) \
                    and all(_pure_expr(v) for v in pvals) \
                    and (all(isinstance(v, (ast.Name, ast.Constant)) for v in pvals)
                         or not any(_has_impure_call(a) for a in list(calls[0].args) + [k.value for k in calls[0].keywords])) \
                    and not ({n.id for v in pvals for n in ast.walk(v) if isinstance(n, ast.Name)} & _stored_names(nxt)) \
                    and _first_evaluated(nxt, lambda n: n is calls[0], local_names):
                c = calls[0]
                c.func = g
                c.args = list(pargs) + list(c.args)
                c.keywords = list(pkws) + list(c.keywords)
                ast.fix_missing_locations(nxt)
                out.append(nxt)
                i += 2
                continue
        out.append(st)
        i += 1
    return out


def p_tryelse(stmts: list) -> list:
    """`try: B except ...: <ends in raise / return> else: E` (no finally) is `try: B except ...: ...` followed by E: the
    statements after the try run exactly when B completed without an exception, as the else block does"""
    out = []
    for st in stmts:
        if isinstance(st, ast.Try) and st.orelse and not st.finalbody and st.handlers \
                and all(_terminal(h.body) for h in st.handlers):
            rest, st.orelse = st.orelse, []
            out.append(st)
            out.extend(rest)
            continue
        out.append(st)
    return out


def p_temp(stmts: list, fn_body_ref: list, local_names: set = frozenset()) -> list:
    """`x = E; return x` -> `return E`;  `x = E; t = x` -> `t = E` when x is not loaded anywhere else"""
    out, i = [], 0
    while i < len(stmts):
        st = stmts[i]
        nxt = stmts[i + 1] if i + 1 < len(stmts) else None
        if _reraising_try(st) and nxt is not None:
            # `try: x = E except ...: raise` followed by `return x` / `t = x` (t a plain name - binding it cannot raise)
            n1, v1 = _single_assign(st.body)
            if n1 is not None and sum(_loads(s, n1) for s in fn_body_ref) == 1 \
                    and sum(1 for s in fn_body_ref for n in ast.walk(s)
                            if isinstance(n, ast.Name) and n.id == n1 and not isinstance(n.ctx, ast.Load)) == 1:
                if isinstance(nxt, ast.Return) and isinstance(nxt.value, ast.Name) and nxt.value.id == n1:
                    st.body = [ast.copy_location(ast.Return(value=v1), st.body[0])]
                    out.append(st)
                    i += 2
                    continue
                if isinstance(nxt, ast.Assign) and isinstance(nxt.value, ast.Name) and nxt.value.id == n1 \
                        and len(nxt.targets) == 1 and isinstance(nxt.targets[0], ast.Name):
                    st.body = [ast.copy_location(ast.Assign(targets=nxt.targets, value=v1), st.body[0])]
                    out.append(st)
                    i += 2
                    continue
        if isinstance(st, ast.Assign) and len(st.targets) == 1 and isinstance(st.targets[0], ast.Name) and nxt is not None:
            x = st.targets[0].id
            total = sum(_loads(s, x) for s in fn_body_ref)
            stores = sum(1 for s in fn_body_ref for n in ast.walk(s)
                         if isinstance(n, ast.Name) and n.id == x and not isinstance(n.ctx, ast.Load))
            if total == 1 and stores == 1:
                if isinstance(nxt, ast.Return) and isinstance(nxt.value, ast.Name) and nxt.value.id == x:
                    out.append(ast.copy_location(ast.Return(value=st.value), st))
                    i += 2
                    continue
                if isinstance(nxt, ast.Assign) and isinstance(nxt.value, ast.Name) and nxt.value.id == x \
                        and len(nxt.targets) == 1 and _chain(nxt.targets[0]):
                    out.append(ast.copy_location(ast.Assign(targets=nxt.targets, value=st.value), st))
                    i += 2
                    continue
                # a pure intermediate result used once, in the directly following simple statement
                if not any(True for _ in _blocks(nxt)) and _loads(nxt, x) == 1 and _pure_expr(st.value) \
                        and isinstance(nxt, (ast.Assign, ast.AugAssign, ast.Return, ast.Expr)) \
                        and not _has_impure_call(nxt):
                    out.append(_Subst({x: st.value}).visit(nxt))
                    i += 2
                    continue
                # any intermediate result used once, as the first thing the directly following statement evaluates
                if isinstance(nxt, (ast.Assign, ast.Return, ast.Expr)) and _loads(nxt, x) == 1 \
                        and not any(isinstance(n, (ast.NamedExpr, ast.Lambda, ast.ListComp, ast.SetComp, ast.DictComp,
                                                   ast.GeneratorExp, ast.Await, ast.Yield, ast.YieldFrom))
                                    for n in list(ast.walk(nxt)) + list(ast.walk(st.value))) \
                        and _first_evaluated(nxt, _is_load_of(x), local_names):
                    out.append(_Subst({x: st.value}).visit(nxt))
                    i += 2
                    continue
        out.append(st)
        i += 1
    return out


# --------------------------------------------------------------------------------------------------- constants

def _const_value(v: ast.AST) -> bool:
    def num(n):
        if isinstance(n, ast.UnaryOp) and isinstance(n.op, (ast.USub, ast.UAdd)):
            n = n.operand
        return isinstance(n, ast.Constant) and isinstance(n.value, (int, float)) and not isinstance(n.value, bool)
    if num(v):
        return True
    return isinstance(v, ast.Tuple) and v.elts and all(num(e) for e in v.elts)


def module_constants(tree: ast.Module) -> dict:
    seen, vals = {}, {}
    for st in tree.body:
        for n in _stored_names(st):
            seen[n] = seen.get(n, 0) + 1
        tgt = val = None
        if isinstance(st, ast.Assign) and len(st.targets) == 1 and isinstance(st.targets[0], ast.Name):
            tgt, val = st.targets[0].id, st.value
        elif isinstance(st, ast.AnnAssign) and isinstance(st.target, ast.Name) and st.value is not None:
            tgt, val = st.target.id, st.value
        if tgt is not None and _const_value(val):
            vals[tgt] = val
    return {k: v for k, v in vals.items() if seen.get(k) == 1}


def p_constants(fn: ast.FunctionDef, consts: dict):
    if not consts:
        return
    bound = _stored_names(fn) | {a.arg for a in ast.walk(fn.args) if isinstance(a, ast.arg)}
    for n in ast.walk(fn):
        if isinstance(n, (ast.Global, ast.Nonlocal)):
            bound |= set(n.names)
    m = {k: v for k, v in consts.items() if k not in bound}
    if m:
        fn.body = [_Subst(m).visit(st) for st in fn.body]


# --------------------------------------------------------------------------------------------------- calls: keywords, inline

def _sig(fd: ast.FunctionDef):
    a = fd.args
    if a.vararg or a.kwarg or a.posonlyargs:
        return None
    names = [x.arg for x in a.args]
    defaults = dict(zip(names[len(names) - len(a.defaults):], a.defaults))
    for x, d in zip(a.kwonlyargs, a.kw_defaults):
        names.append(x.arg)
        if d is not None:
            defaults[x.arg] = d
    return names, defaults, len(a.args)


def _bind(call: ast.Call, fd: ast.FunctionDef):
    """-> ordered {param: expression} or None"""
    sg = _sig(fd)
    if sg is None or any(isinstance(x, ast.Starred) for x in call.args) or any(k.arg is None for k in call.keywords):
        return None
    names, defaults, npos = sg
    if len(call.args) > npos:
        return None
    got = dict(zip(names, call.args))
    for k in call.keywords:
        if k.arg in got or k.arg not in names:
            return None
        got[k.arg] = k.value
    for n in names:
        if n not in got:
            if n not in defaults:
                return None
            got[n] = copy.deepcopy(defaults[n])
    return {n: got[n] for n in names}


class _Keywordise(ast.NodeTransformer):
    def __init__(self, funcs: dict):
        self.funcs = funcs

    def visit_Call(self, node):
        self.generic_visit(node)
        if isinstance(node.func, ast.Name) and node.func.id in self.funcs and node.args:
            fd = self.funcs[node.func.id]
            sg = _sig(fd)
            if sg and not any(isinstance(x, ast.Starred) for x in node.args) and all(k.arg for k in node.keywords) \
                    and len(node.args) <= sg[2]:
                kws = [ast.keyword(arg=n, value=v) for n, v in zip(sg[0], node.args)] + node.keywords
                order = {n: i for i, n in enumerate(sg[0])}
                if len({k.arg for k in kws}) == len(kws) and all(k.arg in order for k in kws):
                    # keyword values are evaluated left to right: keep the written order (positional first)
                    node.args, node.keywords = [], kws
        return node


def _inlinable(fd: ast.FunctionDef) -> bool:
    if fd.decorator_list or _sig(fd) is None:
        return False
    for n in ast.walk(fd):
        if isinstance(n, (ast.Yield, ast.YieldFrom, ast.Global, ast.Nonlocal, ast.Lambda, ast.Await)) \
                or (isinstance(n, (ast.FunctionDef, ast.ClassDef, ast.AsyncFunctionDef)) and n is not fd):
            return False
        if isinstance(n, ast.Call) and isinstance(n.func, ast.Name) and n.func.id == fd.name:
            return False
    return True


def _nest_returns(stmts: list):
    """guard-clause form -> nested if/else so that every `return` is in tail position; None if impossible"""
    out = []
    for i, st in enumerate(stmts):
        last = i == len(stmts) - 1
        if isinstance(st, ast.Return):
            return out + [st] if last else None
        if isinstance(st, ast.If):
            has_ret = any(isinstance(n, ast.Return) for n in ast.walk(st))
            if has_ret:
                rest = stmts[i + 1:]
                body = _nest_returns(st.body + ([] if _terminal(st.body) else copy.deepcopy(rest)))
                orelse = _nest_returns((st.orelse or []) + ([] if (st.orelse and _terminal(st.orelse)) else copy.deepcopy(rest)))
                if body is None or orelse is None:
                    return None
                new = ast.copy_location(ast.If(test=st.test, body=body or [ast.Pass()], orelse=orelse), st)
                return out + [new]
        elif _reraising_try(st) and last and any(isinstance(n, ast.Return) for n in ast.walk(st)):
            inner = _nest_returns(st.body)
            if inner is None:
                return None
            st.body = inner
            return out + [st]
        elif any(isinstance(n, ast.Return) for n in ast.walk(st)):
            return None                      # a return inside a loop / with / other try: not inlined
        out.append(st)
    return out


def _tail_returns(stmts: list, make) -> list:
    """replace tail `return e` by make(e) (a list of statements)"""
    if not stmts:
        return stmts
    last = stmts[-1]
    if isinstance(last, ast.Return):
        return stmts[:-1] + make(last.value)
    if isinstance(last, ast.If):
        last.body = _tail_returns(last.body, make)
        last.orelse = _tail_returns(last.orelse, make)
        if not last.body:
            last.body = [ast.Pass()]
    if _reraising_try(last):
        last.body = _tail_returns(last.body, make) or [ast.Pass()]
    return stmts


class Inliner:
    def __init__(self, helpers: dict, caller: ast.FunctionDef):
        self.helpers = helpers
        self.caller = caller
        self.counter = 0

    def _fresh_body(self, fd: ast.FunctionDef, call: ast.Call, taken: set):
        bound = _bind(call, fd)
        if bound is None:
            return None
        body = copy.deepcopy(fd.body)
        body = _map_blocks(body, p_clean)
        body = _nest_returns(body)
        if body is None:
            return None
        params = list(bound)
        stored = set()
        for st in body:
            stored |= _stored_names(st)
        pre, ren, sub = [], {}, {}
        for p in params:
            arg = bound[p]
            if p not in stored and (isinstance(arg, ast.Constant) or isinstance(arg, ast.Name)):
                if isinstance(arg, ast.Name) and arg.id in (stored - {p}):
                    pass                                  # the helper rebinds a local of that name: bind explicitly
                else:
                    sub[p] = arg
                    continue
            new = p
            while new in taken or new in sub:
                self.counter += 1
                new = f"{p}__{fd.name.strip('_')}{self.counter}"
            ren[p] = new
            taken.add(new)
            pre.append(ast.Assign(targets=[ast.Name(id=new, ctx=ast.Store())], value=arg))
        for loc in sorted(stored - set(params)):
            if loc in taken:
                self.counter += 1
                new = f"{loc}__{fd.name.strip('_')}{self.counter}"
                ren[loc] = new
                taken.add(new)
            else:
                taken.add(loc)
        body = [_Rename(ren).visit(st) for st in body]
        body = [_Subst(sub).visit(st) for st in body]
        return pre, body

    def expr_helpers(self, stmts: list) -> list:
        """calls of helpers whose body is `return <expr>` with simple arguments -> the expression"""
        helpers = self.helpers

        class T(ast.NodeTransformer):
            def visit_Call(self, node):
                self.generic_visit(node)
                if isinstance(node.func, ast.Name) and node.func.id in helpers:
                    fd = helpers[node.func.id]
                    body = p_clean(list(fd.body))
                    if len(body) == 1 and isinstance(body[0], ast.Return) and body[0].value is not None:
                        bound = _bind(node, fd)
                        if bound is not None and all(_simple(v) for v in bound.values()) \
                                and not (_stored_names(body[0]) & set(bound)):
                            free = {n.id for n in ast.walk(body[0].value) if isinstance(n, ast.Name)} - set(bound)
                            # a simple argument is evaluated once per use: names / constants / attribute reads only
                            e = _Subst(bound).visit(copy.deepcopy(body[0].value))
                            _ = free
                            return ast.copy_location(e, node)
                return node
        return [T().visit(st) for st in stmts]

    def stmt_helpers(self, stmts: list) -> list:
        out = []
        for st in stmts:
            call = mode = None
            if isinstance(st, ast.Expr) and isinstance(st.value, ast.Call):
                call, mode = st.value, "expr"
            elif isinstance(st, ast.Assign) and isinstance(st.value, ast.Call) and len(st.targets) == 1 \
                    and _chain(st.targets[0]):
                call, mode = st.value, "assign"
            elif isinstance(st, ast.Return) and isinstance(st.value, ast.Call):
                call, mode = st.value, "return"
            if call is not None and isinstance(call.func, ast.Name) and call.func.id in self.helpers:
                fd = self.helpers[call.func.id]
                taken = _stored_names(self.caller) | {a.arg for a in ast.walk(self.caller.args) if isinstance(a, ast.arg)}
                for s in out:
                    taken |= _stored_names(s)
                got = self._fresh_body(fd, call, taken)
                if got is not None:
                    pre, body = got
                    has_value = any(isinstance(n, ast.Return) and n.value is not None for s in body for n in ast.walk(s))
                    falls_off = not _terminal(body) or any(isinstance(n, ast.Return) and n.value is None
                                                           for s in body for n in ast.walk(s))
                    ok = True
                    if mode == "expr":
                        body = _tail_returns(body, lambda v: [] if v is None or _simple(v) else [ast.Expr(value=v)])
                    elif mode == "assign":
                        tgt = st.targets[0]
                        if has_value and not falls_off:
                            body = _tail_returns(body, lambda v: [ast.Assign(targets=[copy.deepcopy(tgt)], value=v)])
                        else:
                            ok = False
                    else:
                        if has_value and not falls_off:
                            pass                      # tail returns stay returns
                        else:
                            ok = False
                    if ok:
                        for s in pre + body:
                            ast.copy_location(s, st)
                            ast.fix_missing_locations(s)
                        out.extend(pre + body)
                        continue
            out.append(st)
        return out


def _resolve_imported_helpers(repo: Path, rel: str, tree: ast.Module) -> dict:
    """functions imported by name from another module of the same top-level package (`from pyxel.a.b import f`,
    `from .b import f`) -> FunctionDef, when that module exists in the tree under test"""
    out = {}
    here = Path(rel).parent
    for st in tree.body:
        if not isinstance(st, ast.ImportFrom) or st.module is None and st.level == 0:
            continue
        if st.level:
            base = here
            for _ in range(st.level - 1):
                base = base.parent
            modpath = base / Path(*(st.module.split("."))) if st.module else base
        else:
            if st.module.split(".")[0] != Path(rel).parts[0]:
                continue
            modpath = Path(*st.module.split("."))
        # only siblings: same sub-package as the file that is read (models/<group>/...)
        if modpath.parent != here:
            continue
        f = repo / modpath.with_suffix(".py")
        if not f.exists():
            continue
        try:
            sub = ast.parse(f.read_text())
        except SyntaxError:
            continue
        fds = {n.name: n for n in sub.body if isinstance(n, ast.FunctionDef)}
        subconsts = module_constants(sub)
        for a in st.names:
            if a.name in fds and a.name.startswith("_"):
                fd = copy.deepcopy(fds[a.name])
                p_constants(fd, subconsts)
                out[a.asname or a.name] = fd
    return out


# --------------------------------------------------------------------------------------------------- aliases

def _pure_call(n: ast.Call) -> bool:
    f = ast.unparse(n.func)
    # known pure functions; building an exception object (`raise ValueError(...)`) touches nothing either
    return f in PURE_CALLS or (isinstance(n.func, ast.Name) and f.endswith(("Error", "Exception", "Warning")))


def _has_impure_call(node: ast.AST) -> bool:
    return any(isinstance(n, ast.Call) and not _pure_call(n) for n in ast.walk(node))


def _store_paths(node: ast.AST):
    """(names stored, has attribute/subscript store)"""
    names, attr = set(), []
    for n in ast.walk(node):
        if isinstance(n, ast.Name) and isinstance(n.ctx, (ast.Store, ast.Del)):
            names.add(n.id)
        elif isinstance(n, (ast.Attribute, ast.Subscript)) and isinstance(n.ctx, (ast.Store, ast.Del)):
            attr.append(n)
        elif isinstance(n, ast.AugAssign):
            if isinstance(n.target, ast.Name):
                names.add(n.target.id)
            else:
                attr.append(n.target)
    return names, attr


def _arith(node: ast.AST) -> bool:
    """+ - * / comparisons, `and` / `or` / `not` over names and constants (no attribute read, no call, no subscript)"""
    for n in ast.walk(node):
        if not isinstance(n, (ast.BinOp, ast.UnaryOp, ast.Compare, ast.BoolOp, ast.Name, ast.Constant, ast.operator,
                              ast.unaryop, ast.cmpop, ast.boolop, ast.expr_context)):
            return False
    return not isinstance(node, (ast.Name, ast.Constant))


def _literal_seq(node: ast.AST) -> bool:
    """list / tuple display (possibly nested) of names, constants and arithmetic over them: a value that is rebuilt
    equal at every use - interchangeable with the one object as long as it is never mutated, compared by identity or
    handed to unknown code (`_only_read_as_value`)"""
    return isinstance(node, (ast.List, ast.Tuple)) and isinstance(node.ctx, ast.Load) and bool(node.elts) and all(
        isinstance(e, (ast.Name, ast.Constant)) or _arith(e) or _literal_seq(e) for e in node.elts)


def _only_read_as_value(body: list, x: str) -> bool:
    """x is never the root of a store / augmented target and never handed to code that could mutate it"""
    for st in body:
        for n in ast.walk(st):
            if isinstance(n, (ast.Attribute, ast.Subscript)) and not isinstance(n.ctx, ast.Load) and _root(n) == x:
                return False
            if isinstance(n, ast.AugAssign) and _root(n.target) == x:
                return False
            if isinstance(n, ast.Call) and not _pure_call(n):
                if any(_loads(a, x) for a in list(n.args) + [k.value for k in n.keywords]) or _root(n.func) == x:
                    return False
            if isinstance(n, ast.Compare) and any(isinstance(o, (ast.Is, ast.IsNot)) for o in n.ops) and _loads(n, x):
                return False
    return True


def p_alias(fn: ast.FunctionDef):
    body = fn.body
    params = {a.arg for a in ast.walk(fn.args) if isinstance(a, ast.arg)}
    store_count = {}
    for st in body:
        for n in ast.walk(st):
            if isinstance(n, ast.Name) and not isinstance(n.ctx, ast.Load):
                store_count[n.id] = store_count.get(n.id, 0) + 1
            if isinstance(n, ast.AugAssign) and isinstance(n.target, ast.Name):
                store_count[n.target.id] = store_count.get(n.target.id, 0) + 1
    active = {}          # local -> expression
    alias_stmt = {}      # local -> defining statement
    for st in body:
        # 1. which aliases does this statement make stale?
        names, attr = _store_paths(st)
        impure = _has_impure_call(st)
        compound = any(True for _ in _blocks(st))
        dead = set()
        for x, e in active.items():
            enames = {n.id for n in ast.walk(e) if isinstance(n, ast.Name)}
            if enames & names:
                dead.add(x)
            elif not isinstance(e, (ast.Name, ast.Constant)) and (attr or impure):
                dead.add(x)       # attribute chains and arithmetic over (possibly mutable) values: any store into an
                                  # object or any call of unknown code may change what the expression gives
        # 2. substitute: in a simple statement loads happen before the stores; in a compound one only the
        #    aliases that stay alive throughout are substituted
        usable = {x: e for x, e in active.items() if not (compound and x in dead)}
        # an alias to an attribute chain is not substituted into a statement that calls impure code before the use
        # could be evaluated, unless the use is an argument of that very call (evaluated before the call runs)
        if usable:
            if compound:
                _Subst(usable).visit(st)
            else:
                safe = dict(usable)
                if impure:
                    ncalls = sum(1 for n in ast.walk(st) if isinstance(n, ast.Call) and not _pure_call(n))
                    if ncalls > 1:
                        safe = {x: e for x, e in usable.items() if isinstance(e, (ast.Name, ast.Constant))}
                _Subst(safe).visit(st)
        for x in dead:
            active.pop(x, None)
        # 3. does it define a new alias?
        if isinstance(st, ast.Assign) and len(st.targets) == 1 and isinstance(st.targets[0], ast.Name) \
                and (_simple(st.value) or ((_arith(st.value) or _literal_seq(st.value))
                                           and _only_read_as_value(body, st.targets[0].id))):
            x = st.targets[0].id
            if store_count.get(x) == 1 and x not in params and not _loads(st.value, x):
                active[x] = st.value
                alias_stmt[x] = st
    # drop alias assignments whose local is no longer read
    keep = []
    for st in body:
        drop = False
        for x, s in alias_stmt.items():
            if s is st and sum(_loads(t, x) for t in body) == 0:
                drop = True
        if not drop:
            keep.append(st)
    fn.body = keep


# --------------------------------------------------------------------------------------------------- driver

def normalise_function(fn: ast.FunctionDef, module_funcs: dict, helpers: dict, consts: dict) -> ast.FunctionDef:
    fn = copy.deepcopy(fn)
    fn.body = _map_blocks(fn.body, p_clean)
    fn.body = _map_blocks(fn.body, p_match)
    kw = _Keywordise({**module_funcs, **helpers})
    fn.body = [kw.visit(st) for st in fn.body]
    helpers = {k: v for k, v in helpers.items() if k != fn.name and _inlinable(v)}
    if helpers:
        for _ in range(MAX_INLINE_DEPTH):
            before = ast.dump(fn)
            inl = Inliner(helpers, fn)
            fn.body = inl.expr_helpers(fn.body)
            fn.body = _map_blocks(fn.body, inl.stmt_helpers)
            fn.body = _map_blocks(fn.body, p_clean)
            fn.body = [kw.visit(st) for st in fn.body]
            if ast.dump(fn) == before:
                break
    p_constants(fn, consts)
    for _ in range(3):
        before = ast.dump(fn)
        local_names = _stored_names(fn) | {a.arg for a in ast.walk(fn.args) if isinstance(a, ast.arg)}
        fn.body = _map_blocks(fn.body, lambda b: p_walrus(b, local_names))
        fn.body = _map_blocks(fn.body, p_tryelse)
        fn.body = _map_blocks(fn.body, lambda b: p_partial(b, fn.body, local_names))
        fn.body = _map_blocks(fn.body, p_ifexp)
        fn.body = _map_blocks(fn.body, p_polarity)
        fn.body = _map_blocks(fn.body, p_default)
        fn.body = _map_blocks(fn.body, p_sink)
        fn.body = _map_blocks(fn.body, p_flatten)
        local_names = _stored_names(fn) | {a.arg for a in ast.walk(fn.args) if isinstance(a, ast.arg)}
        fn.body = _map_blocks(fn.body, lambda b: p_temp(b, fn.body, local_names))
        p_alias(fn)
        if ast.dump(fn) == before:
            break
    ast.fix_missing_locations(fn)
    return fn


def normalised(repo: Path, rel: str, name: str, anchors: set) -> ast.FunctionDef:
    tree = parse(repo, rel)
    funcs = {n.name: n for n in tree.body if isinstance(n, ast.FunctionDef)}
    if name not in funcs or sum(1 for n in tree.body if isinstance(n, ast.FunctionDef) and n.name == name) != 1:
        from harness.core import TranslationError
        raise TranslationError(f"{rel}: function {name}: not found exactly once")
    consts = module_constants(tree)
    helpers = {k: v for k, v in funcs.items() if k not in anchors}
    for k, v in _resolve_imported_helpers(repo, rel, tree).items():
        if k not in anchors and k not in funcs:
            helpers[k] = v
    # helpers see the module constants too
    helpers = {k: copy.deepcopy(v) for k, v in helpers.items()}
    for k, v in helpers.items():
        if k in funcs:
            p_constants(v, consts)
    return normalise_function(funcs[name], funcs, helpers, consts)
