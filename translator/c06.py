"""C06 — which copy sites deep-copy and which alias.

Extracted (fail closed on every other shape):
  * Processor.__deepcopy__   : one `return Processor(kw=expr, ...)`; per ctor keyword -> the attribute it feeds
                               (from `self.<attr> = <param>` in __init__) and Deep / Alias from the shape of expr
  * ModelGroup.__deepcopy__  : simple assignments + `return ModelGroup(kw=expr, ...)`; keywords whose ctor parameter
                               is annotated with an immutable builtin (str/int/float/bool) are not references
  * create_new_processor, Processor.replace, ModelFittingDataTree.update_processor, build_processors,
    ModelFittingDataTree.__init__ : does the function copy the processor it is given (deepcopy(<param>)), are all
                               `.set(...)` calls made on the copy, is the copy what is returned / stored
  * Observation._run_single_pipeline, observation_dask._run_pipelines_array_to_datatree, ModelFittingDataTree.fitness /
    _apply_parameters : the `processor=` handed to run_pipeline is the name bound to the copier's result
  * for the same five copy sites: does the function WRITE to anything derived from the processor it is given
    (attribute / item stores, del, setattr, mutating method calls rooted at the parameter or at a local bound from it,
    deepcopy(...) results excepted) -> Pure / Touches; and is every value handed to `.set` a deepcopy(...) (or taken
    from a name bound to one) -> src_value_copy
  * where the run sites put the seed bracket (src_seeding): which `pipeline_seed=` reaches run_pipeline from
    Observation.run_pipelines / _run_single_pipeline, from the dask chain (run_pipelines_with_dask -> apply_ufunc kwargs ->
    _run_pipelines_tuple_to_array -> _run_pipelines_array_to_datatree), from ModelFittingDataTree.fitness / _apply_parameters
    (self.pipeline_seed <- __init__ <- Calibration.run_calibration), and whether a `with set_random_seed(...)` surrounds the
    loop over the runs -> SeedEachRun / SeedOncePerCall / SeedNever
  * the pickle route (src_pickle_policy): ModelGroup.__getstate__ hands the models over as they are and __setstate__
    restores them as they were handed over (Deep), does not restore them (Drop), anything else fails closed
  * no class under pyxel/{pipelines,detectors,data_structure,exposure,observation} other than Processor / ModelGroup
    defines __deepcopy__/__copy__/__reduce__/__reduce_ex__/__getstate__/__setstate__
"""
from __future__ import annotations

import ast
from pathlib import Path

from harness.core import TranslationError

from .common import HEADER, body_no_doc, fail, find_func, find_funcs, parse

COPY_SITES = ("create_new_processor", "Processor.replace", "update_processor", "build_processors",
              "ModelFittingDataTree.__init__")
IMMUTABLE_ANN = {"str", "int", "float", "bool"}
HOOKS = {"__deepcopy__", "__copy__", "__reduce__", "__reduce_ex__", "__getstate__", "__setstate__"}
ALLOWED_HOOKS = {("Processor", "__deepcopy__"), ("ModelGroup", "__deepcopy__"), ("ModelGroup", "__getstate__"),
                 ("ModelGroup", "__setstate__")}
SCAN_DIRS = ["pyxel/pipelines", "pyxel/detectors", "pyxel/data_structure", "pyxel/exposure", "pyxel/observation"]


# ------------------------------------------------------------------ general normalisations (behaviour-preserving rewrites)
#
# Every function the tables are read from first goes through `normalise`:
#   (1) `x = [elt for t in it if c]` / `return [...]` / `list(<genexp>)`  ->  the explicit loop with `.append`
#   (2) calls to helper functions / methods of the same module or class (or imported from a pyxel module) are INLINED:
#       parameters are substituted by the argument expressions (or bound to fresh names), the helper's locals get fresh
#       names, `return e` becomes an assignment to the call's target (guard clauses / early returns become nested
#       if/else), a helper called in tail position keeps its returns.  Functions that are themselves rows of the tables
#       (copy sites, run sites) and the copiers are never inlined.
#   (3) single-assignment local aliases of a path (`p = processor`, `det = new.detector`, `r = <helper result>`) are
#       substituted - never when the root of the path is re-bound in the function (an alias taken before a reassignment
#       is NOT the same object; such code keeps its names and is judged by the taint analysis).
# What is not recognised is left as it is (the analyses below then fail closed where they must).

import copy as _copy

NO_INLINE = {"deepcopy", "copy", "create_new_processor", "build_processors", "replace", "update_processor", "run_pipeline",
             "_run_single_pipeline", "_run_pipelines_array_to_datatree", "_run_pipelines_tuple_to_array",
             "run_pipelines_with_dask", "_apply_parameters", "fitness", "run_pipelines", "set", "get", "has",
             "__deepcopy__", "__init__", "set_random_seed", "run_calibration"}
MAX_INLINE_DEPTH = 4
MAX_INLINE_STMTS = 60


def _simple_path(e) -> bool:
    while isinstance(e, ast.Attribute):
        e = e.value
    return isinstance(e, ast.Name)


def _stmt_lists(node):
    """Every statement list below node (not descending into nested function / class definitions)."""
    for field in ("body", "orelse", "finalbody"):
        lst = getattr(node, field, None)
        if isinstance(lst, list) and lst and isinstance(lst[0], ast.stmt):
            yield lst
            for st in lst:
                if not isinstance(st, (ast.FunctionDef, ast.AsyncFunctionDef, ast.ClassDef)):
                    yield from _stmt_lists(st)
    for h in getattr(node, "handlers", []) or []:
        yield from _stmt_lists(h)
    for c in getattr(node, "cases", []) or []:
        yield from _stmt_lists(c)


def _binding_counts(fn) -> dict:
    cnt: dict = {}
    a = fn.args
    for x in a.posonlyargs + a.args + a.kwonlyargs + ([a.vararg] if a.vararg else []) + ([a.kwarg] if a.kwarg else []):
        cnt[x.arg] = cnt.get(x.arg, 0) + 1
    for names, _ in _bindings(fn):
        for n in names:
            cnt[n] = cnt.get(n, 0) + 1
    for node in ast.walk(fn):
        if isinstance(node, ast.ExceptHandler) and node.name:
            cnt[node.name] = cnt.get(node.name, 0) + 1
        elif isinstance(node, (ast.Import, ast.ImportFrom)):
            for al in node.names:
                n = (al.asname or al.name).split(".")[0]
                cnt[n] = cnt.get(n, 0) + 1
        elif isinstance(node, (ast.FunctionDef, ast.AsyncFunctionDef, ast.ClassDef)) and node is not fn:
            cnt[node.name] = cnt.get(node.name, 0) + 1
        elif isinstance(node, (ast.Global, ast.Nonlocal)):
            for n in node.names:
                cnt[n] = cnt.get(n, 0) + 2
        elif isinstance(node, ast.Delete):
            for t in node.targets:
                for n in _target_names(t):
                    cnt[n] = cnt.get(n, 0) + 2
        elif isinstance(node, (ast.MatchAs, ast.MatchStar)) and node.name:
            cnt[node.name] = cnt.get(node.name, 0) + 1
    return cnt


class _Subst(ast.NodeTransformer):
    """Replace loads of the names in `m` by (copies of) the mapped expressions; stores are renamed when mapped to a Name."""

    def __init__(self, m):
        self.m = m

    def visit_Name(self, node):
        if node.id in self.m:
            new = self.m[node.id]
            if isinstance(node.ctx, ast.Load):
                return ast.copy_location(_copy.deepcopy(new), node)
            if isinstance(new, ast.Name):
                return ast.copy_location(ast.Name(id=new.id, ctx=node.ctx), node)
        return node

    def visit_ExceptHandler(self, node):
        self.generic_visit(node)
        if node.name in self.m and isinstance(self.m[node.name], ast.Name):
            node.name = self.m[node.name].id
        return node


def _comp_to_loop(target: str, comp, fresh_decl) -> list | None:
    """`target = [elt for t in it if c]` -> [target = [], for t in it: if c: target.append(elt)]"""
    if isinstance(comp, ast.Call) and ast.unparse(comp.func) in ("list", "tuple") and len(comp.args) == 1 \
            and not comp.keywords and isinstance(comp.args[0], ast.GeneratorExp):
        comp = comp.args[0]
    elif not isinstance(comp, ast.ListComp):
        return None
    if len(comp.generators) != 1 or comp.generators[0].is_async:
        return None
    g = comp.generators[0]
    inner: list = [ast.Expr(ast.Call(func=ast.Attribute(value=ast.Name(id=target, ctx=ast.Load()), attr="append",
                                                        ctx=ast.Load()), args=[comp.elt], keywords=[]))]
    for c in reversed(g.ifs):
        inner = [ast.If(test=c, body=inner, orelse=[])]
    return [fresh_decl, ast.For(target=g.target, iter=g.iter, body=inner, orelse=[], type_comment=None)]


def comps_to_loops(fn):
    k = [0]
    for lst in list(_stmt_lists(fn)):
        i = 0
        while i < len(lst):
            st = lst[i]
            rep = None
            if isinstance(st, ast.Assign) and len(st.targets) == 1 and isinstance(st.targets[0], ast.Name):
                rep = _comp_to_loop(st.targets[0].id, st.value,
                                    ast.Assign(targets=[st.targets[0]], value=ast.List(elts=[], ctx=ast.Load())))
            elif isinstance(st, ast.AnnAssign) and st.value is not None and isinstance(st.target, ast.Name):
                rep = _comp_to_loop(st.target.id, st.value,
                                    ast.AnnAssign(target=st.target, annotation=st.annotation,
                                                  value=ast.List(elts=[], ctx=ast.Load()), simple=1))
            elif isinstance(st, ast.Return) and st.value is not None:
                k[0] += 1
                name = f"_ret{k[0]}"
                rep = _comp_to_loop(name, st.value, ast.Assign(targets=[ast.Name(id=name, ctx=ast.Store())],
                                                               value=ast.List(elts=[], ctx=ast.Load())))
                if rep is not None:
                    rep.append(ast.Return(value=ast.Name(id=name, ctx=ast.Load())))
            if rep is not None:
                for r in rep:
                    ast.copy_location(r, st)
                    ast.fix_missing_locations(r)
                lst[i:i + 1] = rep
                i += len(rep)
            else:
                i += 1
    return fn


def ifexp_to_if(fn):
    """`x = a if c else b` -> `if c: x = a` / `else: x = b`; the same for `return a if c else b` (also nested)."""
    for _ in range(4):
        changed = False
        for lst in list(_stmt_lists(fn)):
            for i, st in enumerate(lst):
                if isinstance(st, (ast.Assign, ast.AnnAssign, ast.Return)) and isinstance(st.value, ast.IfExp):
                    a, b = _copy.deepcopy(st), _copy.deepcopy(st)
                    a.value, b.value = st.value.body, st.value.orelse
                    lst[i] = ast.copy_location(ast.If(test=st.value.test, body=[a], orelse=[b]), st)
                    changed = True
        if not changed:
            break
    return fn


def _ends(stmts) -> bool:
    """Does the statement list always leave the function (return / raise) at its end?"""
    if not stmts:
        return False
    last = stmts[-1]
    if isinstance(last, (ast.Return, ast.Raise)):
        return True
    if isinstance(last, ast.If):
        return _ends(last.body) and _ends(last.orelse)
    return False


def _has_return(node) -> bool:
    for n in ast.walk(node):
        if isinstance(n, ast.Return):
            return True
    return False


def _returns_to_assign(stmts, target: str | None):
    """Statement list with every `return e` replaced by `target = e` (guard clauses become if/else); None when a return
    sits inside a loop / try / with / match (not restructured)."""
    out = []
    for i, st in enumerate(stmts):
        if isinstance(st, ast.Return):
            if st.value is not None and target is not None:
                out.append(ast.copy_location(ast.Assign(targets=[ast.Name(id=target, ctx=ast.Store())], value=st.value), st))
            elif st.value is not None:
                out.append(ast.copy_location(ast.Expr(value=st.value), st))
            return out
        if isinstance(st, (ast.FunctionDef, ast.AsyncFunctionDef, ast.ClassDef)) or not _has_return(st):
            out.append(st)
            continue
        rest = stmts[i + 1:]
        if isinstance(st, (ast.With, ast.AsyncWith, ast.Try)) and not rest:
            # the last statement of the helper: leaving it by `return e` == binding e and running off its end (the exit of
            # the `with` / the `finally` run in both cases); not when an `else:` clause would then run after the try body
            new = _copy.copy(st)
            blocks = [("body", st.body)]
            if isinstance(st, ast.Try):
                if any(_has_return(x) for x in st.finalbody) or (st.orelse and any(_has_return(x) for x in st.body)):
                    return None
                blocks.append(("orelse", st.orelse))
                hs = []
                for h in st.handlers:
                    hb = _returns_to_assign(h.body, target)
                    if hb is None:
                        return None
                    h2 = _copy.copy(h)
                    h2.body = hb or [ast.copy_location(ast.Pass(), h)]
                    hs.append(h2)
                new.handlers = hs
            for field, blk in blocks:
                nb = _returns_to_assign(blk, target)
                if nb is None:
                    return None
                setattr(new, field, nb if (nb or field == "orelse") else [ast.copy_location(ast.Pass(), st)])
            out.append(new)
            return out
        if not isinstance(st, ast.If):
            return None
        b_ends, o_ends = _ends(st.body), _ends(st.orelse)
        if (b_ends and o_ends) or not rest:
            body, orelse = _returns_to_assign(st.body, target), _returns_to_assign(st.orelse, target)
        elif b_ends:                          # guard clause: `if c: return x` + rest  ==  if c: x else: rest
            body, orelse = _returns_to_assign(st.body, target), _returns_to_assign(st.orelse + rest, target)
        elif o_ends:
            body, orelse = _returns_to_assign(st.body + rest, target), _returns_to_assign(st.orelse, target)
        else:
            return None                       # a return below a branch that may also fall through to the rest
        if body is None or orelse is None:
            return None
        out.append(ast.copy_location(ast.If(test=st.test, body=body or [ast.Pass()], orelse=orelse), st))
        return out
    return out


class _Resolver:
    """Finds the definition of a helper called from `fn` (module `tree`, class `cls`, repository `repo`)."""

    def __init__(self, tree, cls, repo, rel):
        self.tree, self.cls, self.repo, self.rel = tree, cls, repo, rel
        self._mods: dict = {}
        self._origin: dict = {}

    def _module(self, dotted: str, level: int):
        if self.repo is None:
            return None
        if level:
            base = Path(self.rel).parent if self.rel else None
            if base is None:
                return None
            for _ in range(level - 1):
                base = base.parent
            parts = list(base.parts) + (dotted.split(".") if dotted else [])
        else:
            parts = dotted.split(".")
        if not parts or parts[0] != "pyxel":
            return None
        for cand in (Path(*parts).with_suffix(".py"), Path(*parts) / "__init__.py"):
            key = str(cand)
            if key not in self._mods:
                f = Path(self.repo) / cand
                try:
                    self._mods[key] = ast.parse(f.read_text()) if f.exists() else None
                except SyntaxError:
                    self._mods[key] = None
            if self._mods[key] is not None:
                return self._mods[key], key
        return None

    def function(self, name: str, tree=None, rel=None, depth=0):
        tree = self.tree if tree is None else tree
        rel = self.rel if rel is None else rel
        defs = [n for n in tree.body if isinstance(n, ast.FunctionDef) and n.name == name]
        if len(defs) == 1:
            if tree is not self.tree:
                self._origin[id(defs[0])] = rel               # the module the helper's global names belong to
            return defs[0]
        if defs or depth > 2:
            return None
        for n in tree.body:                                   # `from pyxel.x.y import name` / `from .y import name`
            if isinstance(n, ast.ImportFrom):
                for al in n.names:
                    if (al.asname or al.name) == name:
                        saved = self.rel
                        self.rel = rel
                        try:
                            m = self._module(n.module or "", n.level)
                        finally:
                            self.rel = saved
                        if m is None:
                            return None
                        return self.function(al.name, m[0], m[1], depth + 1)
        return None

    def klass(self, name: str, tree=None, rel=None, depth=0):
        """The single module-level class definition `name` of this module, or of the pyxel module it is imported from."""
        tree = self.tree if tree is None else tree
        rel = self.rel if rel is None else rel
        defs = [n for n in tree.body if isinstance(n, ast.ClassDef) and n.name == name]
        other = [n for n in ast.walk(tree) if isinstance(n, (ast.Assign, ast.AnnAssign, ast.FunctionDef)) and any(
            name in _target_names(t) for t in (n.targets if isinstance(n, ast.Assign) else
                                               [n.target] if isinstance(n, ast.AnnAssign) else []))
                 and n in tree.body]
        if len(defs) == 1 and not other:
            return defs[0]
        if defs or other or depth > 2:
            return None
        for n in tree.body:
            if isinstance(n, ast.ImportFrom):
                for al in n.names:
                    if (al.asname or al.name) == name:
                        saved = self.rel
                        self.rel = rel
                        try:
                            m = self._module(n.module or "", n.level)
                        finally:
                            self.rel = saved
                        if m is None:
                            return None
                        return self.klass(al.name, m[0], m[1], depth + 1)
        return None

    def method(self, name: str):
        if self.cls is None:
            return None
        defs = [n for n in self.cls.body if isinstance(n, ast.FunctionDef) and n.name == name]
        return defs[0] if len(defs) == 1 else None


def _inlinable(helper) -> bool:
    if helper.args.vararg or helper.args.kwarg:
        return False
    n = 0
    for node in ast.walk(helper):
        if isinstance(node, (ast.Yield, ast.YieldFrom, ast.Await, ast.Global, ast.Nonlocal)):
            return False
        if isinstance(node, ast.stmt):
            n += 1
    return n <= MAX_INLINE_STMTS


def _bind_args(helper, call, bound_self):
    """param name -> argument expression (defaults included); None when the call does not fit the signature."""
    a = helper.args
    pos = [x.arg for x in a.posonlyargs + a.args]
    m: dict = {}
    args = list(call.args)
    if bound_self is not None:
        args = [bound_self] + args
    if any(isinstance(x, ast.Starred) for x in args) or any(k.arg is None for k in call.keywords):
        return None
    if len(args) > len(pos):
        return None
    for p, x in zip(pos, args):
        m[p] = x
    for k in call.keywords:
        if k.arg in m or k.arg not in pos + [x.arg for x in a.kwonlyargs] or k.arg in [x.arg for x in a.posonlyargs]:
            return None
        m[k.arg] = k.value
    dflt = dict(zip(pos[len(pos) - len(a.defaults):], a.defaults))
    for x, d in zip(a.kwonlyargs, a.kw_defaults):
        if d is not None:
            dflt[x.arg] = d
    for p in pos + [x.arg for x in a.kwonlyargs]:
        if p not in m:
            if p not in dflt:
                return None
            m[p] = dflt[p]
    return m


class _Inliner:
    def __init__(self, fn, resolver, self_name):
        self.fn, self.res, self.self_name = fn, resolver, self_name
        self.k = 0

    def _helper_of(self, call):
        """(helper def, expression bound to its first parameter | None) for a call that may be inlined."""
        f = call.func
        if isinstance(f, ast.Name):
            if f.id in NO_INLINE:
                return None
            h = self.res.function(f.id)
            return (h, None) if h is not None and not h.decorator_list else None
        if isinstance(f, ast.Attribute) and isinstance(f.value, ast.Name) and f.value.id == self.self_name \
                and self.self_name is not None and f.attr not in NO_INLINE:
            h = self.res.method(f.attr)
            if h is None:
                return None
            decos = [ast.unparse(d) for d in h.decorator_list]
            if decos == ["staticmethod"]:
                return h, None
            if decos:
                return None
            return h, ast.Name(id=self.self_name, ctx=ast.Load())
        return None

    def _expand(self, call, mode: str, target: str | None, stack):
        """Statements replacing the call; mode 'tail' keeps the returns, 'assign' turns them into `target = e`,
        'drop' discards the value."""
        got = self._helper_of(call)
        if got is None:
            return None
        helper, bound_self = got
        if helper.name in stack or len(stack) >= MAX_INLINE_DEPTH or not _inlinable(helper) or helper is self.fn:
            return None
        m = _bind_args(helper, call, bound_self)
        if m is None:
            return None
        self.k += 1
        pre = f"_h{self.k}_"
        h = _copy.deepcopy(helper)
        counts = _binding_counts(h)
        sub: dict = {}
        prologue = []
        for p, x in m.items():
            if counts.get(p, 0) == 1 and (_simple_path(x) or isinstance(x, ast.Constant)):
                sub[p] = x
            else:
                sub[p] = ast.Name(id=pre + p, ctx=ast.Load())
                prologue.append(ast.Assign(targets=[ast.Name(id=pre + p, ctx=ast.Store())], value=x))
        imported = {(al.asname or al.name).split(".")[0] for node in ast.walk(h)
                    if isinstance(node, (ast.Import, ast.ImportFrom)) for al in node.names}
        for n in counts:
            if n not in sub and n not in imported:
                sub[n] = ast.Name(id=pre + n, ctx=ast.Load())
        body = body_no_doc(h)
        body = [_Subst(sub).visit(st) for st in body]
        if mode != "tail":
            body = _returns_to_assign(body, target if mode == "assign" else None)
            if body is None:
                return None
        out = prologue + body
        origin = self.res._origin.get(id(helper), getattr(call, "_mod", None))
        for st in out:
            ast.copy_location(st, call)
            ast.fix_missing_locations(st)
            if origin is not None:
                for node in ast.walk(st):
                    if isinstance(node, ast.Call) and not hasattr(node, "_mod"):
                        node._mod = origin
        # helpers called by the helper
        wrapper = ast.Module(body=out, type_ignores=[])
        self._process(wrapper, stack + [helper.name])
        return wrapper.body

    def _candidate_calls(self, st):
        """Calls of a simple statement that are evaluated unconditionally, innermost first."""
        found = []

        def walk(node):
            if isinstance(node, (ast.Lambda, ast.ListComp, ast.SetComp, ast.DictComp, ast.GeneratorExp, ast.IfExp)):
                return
            if isinstance(node, ast.BoolOp):
                walk(node.values[0])
                return
            for c in ast.iter_child_nodes(node):
                walk(c)
            if isinstance(node, ast.Call):
                found.append(node)

        walk(st)
        return found

    def _process(self, root, stack):
        for lst in list(_stmt_lists(root)):
            i = 0
            guard = 0
            while i < len(lst) and guard < 200:
                guard += 1
                st = lst[i]
                rep = None
                if isinstance(st, ast.Expr) and isinstance(st.value, ast.Call):
                    rep = self._expand(st.value, "drop", None, stack)
                elif isinstance(st, ast.Return) and isinstance(st.value, ast.Call):
                    rep = self._expand(st.value, "tail", None, stack)
                elif isinstance(st, ast.Assign) and len(st.targets) == 1 and isinstance(st.targets[0], ast.Name) \
                        and isinstance(st.value, ast.Call):
                    rep = self._expand(st.value, "assign", st.targets[0].id, stack)
                elif isinstance(st, ast.AnnAssign) and isinstance(st.target, ast.Name) and isinstance(st.value, ast.Call):
                    rep = self._expand(st.value, "assign", st.target.id, stack)
                if rep is None and isinstance(st, (ast.Expr, ast.Assign, ast.AnnAssign, ast.AugAssign, ast.Return)):
                    # a helper call nested in the statement's expression: hoist its body, leave its result's name
                    for call in self._candidate_calls(st):
                        name = f"_h{self.k + 1}_result"
                        body = self._expand(call, "assign", name, stack)
                        if body is not None:
                            new = ast.Name(id=name, ctx=ast.Load())
                            for parent in ast.walk(st):
                                for field, val in ast.iter_fields(parent):
                                    if val is call:
                                        setattr(parent, field, new)
                                    elif isinstance(val, list):
                                        for j, x in enumerate(val):
                                            if x is call:
                                                val[j] = new
                            ast.fix_missing_locations(st)
                            lst[i:i] = body
                            i += len(body)
                            break
                    else:
                        i += 1
                    continue
                if rep is not None:
                    lst[i:i + 1] = rep or [ast.copy_location(ast.Pass(), st)]
                    i += len(rep) or 1
                else:
                    i += 1


def subst_aliases(fn):
    """Substitute single-assignment local aliases of a path whose root is bound at most once."""
    for _ in range(8):
        counts = _binding_counts(fn)
        found = None
        for lst in _stmt_lists(fn):
            for st in lst:
                tgt = val = None
                if isinstance(st, ast.Assign) and len(st.targets) == 1:
                    tgt, val = st.targets[0], st.value
                elif isinstance(st, ast.AnnAssign) and st.value is not None:
                    tgt, val = st.target, st.value
                if isinstance(tgt, ast.Name) and val is not None and _simple_path(val) and counts.get(tgt.id) == 1 \
                        and counts.get(_root(val), 0) <= 1 and _root(val) != tgt.id:
                    found = (lst, st, tgt.id, val)
                    break
            if found:
                break
        if not found:
            break
        lst, st, name, val = found
        lst.remove(st)
        if not lst:
            lst.append(ast.copy_location(ast.Pass(), st))
        _Subst({name: val}).visit(fn)
    return fn


# ---- records of locals: `r = Rec(a=e1, b=e2)` ... `r.a`  ==  `_r_a = e1; _r_b = e2` ... `_r_a`
#
# A local bound exactly once to a tuple literal, to the constructor of a NamedTuple / dataclass declared in a pyxel module
# (generated constructor only: no __init__ / __new__ / __post_init__ / attribute hooks, fields = the annotated names of the
# class body) or to a dict display with constant keys only groups values; reading a field gives the value back.  The fields
# become locals of their own (fresh names, evaluated in the order of the arguments), the field reads are replaced by them, a
# tuple unpacking `x, y = r` becomes `x = _r_0; y = _r_1`.  Immutable records (tuple, NamedTuple, frozen dataclass) may have
# other uses too (the construction is kept, from the field locals); a mutable record (dataclass, dict) is split only when
# EVERY use is a field read (no store into it, never handed on) - otherwise the code is left as written.

_REC_FORBIDDEN = {"__init__", "__new__", "__post_init__", "__getattr__", "__getattribute__", "__setattr__", "__get__",
                  "__class_getitem__", "__init_subclass__"}


def _record_class(cdef):
    """(field names in order, {field: constant default}, immutable?) of a NamedTuple / dataclass definition, else None."""
    bases = [ast.unparse(b) for b in cdef.bases]
    decos = cdef.decorator_list
    if cdef.keywords:
        return None
    if bases in (["NamedTuple"], ["typing.NamedTuple"]) and not decos:
        immutable = True
    elif not bases and len(decos) == 1:
        d = decos[0]
        dname = ast.unparse(d.func if isinstance(d, ast.Call) else d)
        if dname not in ("dataclass", "dataclasses.dataclass"):
            return None
        immutable = False
        if isinstance(d, ast.Call):
            if d.args:
                return None
            for k in d.keywords:
                if k.arg not in ("frozen", "slots", "eq", "order", "repr", "unsafe_hash", "match_args") \
                        or not isinstance(k.value, ast.Constant):
                    return None
                if k.arg == "frozen":
                    immutable = k.value.value is True
    else:
        return None
    fields, dflt = [], {}
    for st in cdef.body:
        if isinstance(st, ast.AnnAssign) and isinstance(st.target, ast.Name):
            ann = ast.unparse(st.annotation)
            if "ClassVar" in ann or "InitVar" in ann or "KW_ONLY" in ann:
                return None
            fields.append(st.target.id)
            if st.value is not None:
                if not isinstance(st.value, ast.Constant):
                    return None
                dflt[st.target.id] = st.value
        elif isinstance(st, (ast.FunctionDef, ast.AsyncFunctionDef)):
            if st.name in _REC_FORBIDDEN or st.name in fields:
                return None
        elif isinstance(st, ast.Expr) and isinstance(st.value, ast.Constant):
            pass
        elif isinstance(st, ast.Pass):
            pass
        else:
            return None
    return (fields, dflt, immutable) if fields else None


def _record_value(val, resolver):
    """(kind, [(field key, expression)] in evaluation order, immutable?, rebuild(names) -> expression) or None."""
    if isinstance(val, ast.Tuple) and val.elts and not any(isinstance(e, ast.Starred) for e in val.elts):
        items = [(i, e) for i, e in enumerate(val.elts)]
        return "tuple", items, True, lambda nm: ast.Tuple(elts=[nm[i] for i, _ in items], ctx=ast.Load())
    if isinstance(val, ast.Dict) and val.keys and all(
            isinstance(k, ast.Constant) and isinstance(k.value, str) for k in val.keys) \
            and len({k.value for k in val.keys}) == len(val.keys):
        return "dict", [(k.value, v) for k, v in zip(val.keys, val.values)], False, None
    if isinstance(val, ast.Call) and isinstance(val.func, ast.Name) and resolver is not None:
        origin = getattr(val, "_mod", None)
        if origin is not None and resolver._mods.get(origin) is not None:
            cdef = resolver.klass(val.func.id, resolver._mods[origin], origin)
        else:
            cdef = resolver.klass(val.func.id)
        rc = _record_class(cdef) if cdef is not None else None
        if rc is None:
            return None
        fields, dflt, immutable = rc
        if any(isinstance(a, ast.Starred) for a in val.args) or any(k.arg is None for k in val.keywords) \
                or len(val.args) > len(fields):
            return None
        items = list(zip(fields, val.args))
        seen = {f for f, _ in items}
        for k in val.keywords:
            if k.arg in seen or k.arg not in fields:
                return None
            seen.add(k.arg)
            items.append((k.arg, k.value))
        for f in fields:
            if f not in seen:
                if f not in dflt:
                    return None
                items.append((f, dflt[f]))
        func = val.func

        def rebuild(nm, func=func, fields=fields):
            return ast.Call(func=_copy.deepcopy(func), args=[], keywords=[ast.keyword(arg=f, value=nm[f]) for f in fields])
        return ("namedtuple" if bases_named(cdef) else "dataclass"), items, immutable, rebuild
    return None


def bases_named(cdef) -> bool:
    return [ast.unparse(b) for b in cdef.bases] in (["NamedTuple"], ["typing.NamedTuple"])


def _parents(fn) -> dict:
    par = {}
    for node in ast.walk(fn):
        for c in ast.iter_child_nodes(node):
            par[id(c)] = node
    return par


def split_tuple_assigns(fn):
    """`x, y = e1, e2`  ->  `_t_0 = e1; _t_1 = e2; x = _t_0; y = _t_1` (names only on the left, no star)."""
    k = 0
    for lst in list(_stmt_lists(fn)):
        i = 0
        while i < len(lst):
            st = lst[i]
            if isinstance(st, ast.Assign) and len(st.targets) == 1 and isinstance(st.targets[0], (ast.Tuple, ast.List)) \
                    and isinstance(st.value, (ast.Tuple, ast.List)) \
                    and len(st.targets[0].elts) == len(st.value.elts) \
                    and all(isinstance(t, ast.Name) for t in st.targets[0].elts) \
                    and not any(isinstance(e, ast.Starred) for e in st.value.elts):
                k += 1
                tmp = [f"_t{k}_{j}" for j in range(len(st.value.elts))]
                rep = [ast.Assign(targets=[ast.Name(id=n, ctx=ast.Store())], value=e) for n, e in zip(tmp, st.value.elts)]
                rep += [ast.Assign(targets=[ast.Name(id=t.id, ctx=ast.Store())], value=ast.Name(id=n, ctx=ast.Load()))
                        for t, n in zip(st.targets[0].elts, tmp)]
                for r in rep:
                    ast.copy_location(r, st)
                    ast.fix_missing_locations(r)
                lst[i:i + 1] = rep
                i += len(rep)
            else:
                i += 1
    return fn


def split_records(fn, resolver):
    k = 0
    skip: set = set()
    for _ in range(12):
        counts = _binding_counts(fn)
        found = None
        for lst in _stmt_lists(fn):
            for st in lst:
                tgt = val = None
                if isinstance(st, ast.Assign) and len(st.targets) == 1:
                    tgt, val = st.targets[0], st.value
                elif isinstance(st, ast.AnnAssign) and st.value is not None:
                    tgt, val = st.target, st.value
                if not isinstance(tgt, ast.Name) or counts.get(tgt.id) != 1 or tgt.id in skip:
                    continue
                if isinstance(val, ast.Call) and isinstance(val.func, ast.Name) and val.func.id in counts:
                    continue                          # the class name is shadowed by a local
                rec = _record_value(val, resolver)
                if rec is not None:
                    found = (lst, st, tgt.id, rec)
                    break
            if found:
                break
        if not found:
            break
        lst, st, name, (kind, items, immutable, rebuild) = found
        keys = [key for key, _ in items]
        index_ok = kind in ("tuple", "namedtuple")
        attr_ok = kind in ("namedtuple", "dataclass")
        par = _parents(fn)
        field_uses, unpack_uses, other = [], [], 0
        for node in ast.walk(fn):
            if not (isinstance(node, ast.Name) and node.id == name and isinstance(node.ctx, ast.Load)):
                continue
            p = par.get(id(node))
            if attr_ok and isinstance(p, ast.Attribute) and p.value is node and isinstance(p.ctx, ast.Load) \
                    and p.attr in keys:
                field_uses.append((p, p.attr))
            elif isinstance(p, ast.Subscript) and p.value is node and isinstance(p.ctx, ast.Load) \
                    and isinstance(p.slice, ast.Constant) and (
                    (index_ok and isinstance(p.slice.value, int) and not isinstance(p.slice.value, bool)
                     and 0 <= p.slice.value < len(keys))
                    or (kind == "dict" and isinstance(p.slice.value, str) and p.slice.value in keys)):
                field_uses.append((p, keys[p.slice.value] if index_ok else p.slice.value))
            elif index_ok and isinstance(p, ast.Assign) and p.value is node and len(p.targets) == 1 \
                    and isinstance(p.targets[0], (ast.Tuple, ast.List)) and len(p.targets[0].elts) == len(keys) \
                    and all(isinstance(t, ast.Name) for t in p.targets[0].elts):
                unpack_uses.append(p)
            else:
                other += 1
        hacked = any(isinstance(c, ast.Call) and ast.unparse(c.func).split(".")[-1] in ("setattr", "__setattr__", "delattr")
                     and c.args and isinstance(c.args[0], ast.Name) and c.args[0].id == name for c in ast.walk(fn))
        if (other and not immutable) or (other and rebuild is None) or not (field_uses or unpack_uses) or hacked:
            skip.add(name)
            continue
        k += 1
        loc = {key: f"_r{k}_{key}" for key in keys}
        new = [ast.Assign(targets=[ast.Name(id=loc[key], ctx=ast.Store())], value=e) for key, e in items]
        if other:
            keep = _copy.copy(st)
            keep.value = rebuild({key: ast.Name(id=loc[key], ctx=ast.Load()) for key in keys})
            new.append(keep)
        for r in new:
            ast.copy_location(r, st)
            ast.fix_missing_locations(r)
        i = next(j for j, x in enumerate(lst) if x is st)
        lst[i:i + 1] = new
        repl = {id(node): ast.Name(id=loc[key], ctx=ast.Load()) for node, key in field_uses}
        for parent in ast.walk(fn):
            for field, v in ast.iter_fields(parent):
                if isinstance(v, ast.AST) and id(v) in repl:
                    setattr(parent, field, ast.copy_location(repl[id(v)], v))
                elif isinstance(v, list):
                    for j, x in enumerate(v):
                        if isinstance(x, ast.AST) and id(x) in repl:
                            v[j] = ast.copy_location(repl[id(x)], x)
        for l2 in list(_stmt_lists(fn)):
            for j, x in enumerate(list(l2)):
                if any(x is u for u in unpack_uses):
                    rep = [ast.copy_location(ast.Assign(targets=[ast.Name(id=t.id, ctx=ast.Store())],
                                                        value=ast.Name(id=loc[key], ctx=ast.Load())), x)
                           for t, key in zip(x.targets[0].elts, keys)]
                    for r in rep:
                        ast.fix_missing_locations(r)
                    jj = next(q for q, y in enumerate(l2) if y is x)
                    l2[jj:jj + 1] = rep
    return fn


def inline_partials(fn):
    """`run = partial(f, a, k=v)` ... `run(b, k2=w)`  ->  `f(a, b, k=v, k2=w)`: a local bound exactly once to
    functools.partial(...) whose EVERY use is a call (never handed on, so nobody else can call it with other arguments);
    the frozen arguments must be names / attribute paths of roots bound at most once / constants (evaluated early or late
    makes no difference); a keyword given at the call overrides the frozen one."""
    for _ in range(6):
        counts = _binding_counts(fn)
        done = False
        for lst in list(_stmt_lists(fn)):
            for st in list(lst):
                tgt = val = None
                if isinstance(st, ast.Assign) and len(st.targets) == 1:
                    tgt, val = st.targets[0], st.value
                elif isinstance(st, ast.AnnAssign) and st.value is not None:
                    tgt, val = st.target, st.value
                if not (isinstance(tgt, ast.Name) and counts.get(tgt.id) == 1 and isinstance(val, ast.Call)
                        and ast.unparse(val.func) in ("partial", "functools.partial") and val.args
                        and "partial" not in counts and "functools" not in counts):
                    continue
                frozen = val.args[1:] + [k.value for k in val.keywords]
                if any(isinstance(a, ast.Starred) for a in val.args) or any(k.arg is None for k in val.keywords) \
                        or not _simple_path(val.args[0]) \
                        or not all(isinstance(a, ast.Constant) or (_simple_path(a) and counts.get(_root(a), 0) <= 1)
                                   for a in frozen):
                    continue
                par = _parents(fn)
                uses = [n for n in ast.walk(fn) if isinstance(n, ast.Name) and n.id == tgt.id and n is not tgt]
                calls = [par.get(id(n)) for n in uses]
                if not uses or not all(isinstance(c, ast.Call) and c.func is n for c, n in zip(calls, uses)):
                    continue
                for c in calls:
                    given = {k.arg for k in c.keywords}
                    if None in given:
                        break
                else:
                    for c in calls:
                        given = {k.arg for k in c.keywords}
                        c.func = ast.copy_location(_copy.deepcopy(val.args[0]), c.func)
                        c.args = [_copy.deepcopy(a) for a in val.args[1:]] + c.args
                        c.keywords = [_copy.deepcopy(k) for k in val.keywords if k.arg not in given] + c.keywords
                        ast.fix_missing_locations(c)
                    lst.remove(st)
                    if not lst:
                        lst.append(ast.copy_location(ast.Pass(), st))
                    done = True
                    break
            if done:
                break
        if not done:
            break
    return fn


def hoist_walrus(fn):
    """`if (x := e) ...:` / `y = f((x := e))`  ->  `x = e` in front of the statement, when the binding is evaluated
    unconditionally and first (nothing of the statement that is evaluated before it reads x or can be affected by it: the
    binding must be the first call / name-binding of the statement in evaluation order)."""
    for lst in list(_stmt_lists(fn)):
        i = 0
        guard = 0
        while i < len(lst) and guard < 200:
            guard += 1
            st = lst[i]
            if isinstance(st, ast.If):
                holder, field = st, "test"
            elif isinstance(st, (ast.Assign, ast.AnnAssign, ast.Return, ast.Expr)) and st.value is not None:
                holder, field = st, "value"
            else:
                i += 1
                continue
            root = getattr(holder, field)
            first = None

            def walk(node):
                """First node in evaluation order that is a call / walrus / await / yield; conditional positions stop."""
                nonlocal first
                if first is not None:
                    return
                if isinstance(node, ast.NamedExpr):
                    first = node                    # its value moves with it
                    return
                if isinstance(node, (ast.Lambda, ast.ListComp, ast.SetComp, ast.DictComp, ast.GeneratorExp)):
                    first = node
                    return
                if isinstance(node, ast.IfExp):
                    walk(node.test)
                    if first is None:
                        first = node
                    return
                if isinstance(node, ast.BoolOp):
                    walk(node.values[0])
                    if first is None:
                        first = node
                    return
                for c in ast.iter_child_nodes(node):
                    walk(c)
                    if first is not None:
                        return
                if isinstance(node, (ast.Call, ast.Await, ast.Yield, ast.YieldFrom, ast.Attribute, ast.Subscript)):
                    first = node                    # evaluated before the binding: the binding is not moved across it

            walk(root)
            if isinstance(first, ast.NamedExpr) and isinstance(first.target, ast.Name):
                ne = first
                before = []
                for node in ast.walk(root):          # loads of the target that come textually before the binding
                    if isinstance(node, ast.Name) and node.id == ne.target.id and node is not ne.target \
                            and (node.lineno, node.col_offset) < (ne.lineno, ne.col_offset):
                        before.append(node)
                if before:
                    i += 1
                    continue
                new = ast.copy_location(ast.Assign(targets=[ast.Name(id=ne.target.id, ctx=ast.Store())], value=ne.value), st)
                ast.fix_missing_locations(new)
                load = ast.copy_location(ast.Name(id=ne.target.id, ctx=ast.Load()), ne)
                if root is ne:
                    setattr(holder, field, load)
                else:
                    for parent in ast.walk(root):
                        for f2, v in ast.iter_fields(parent):
                            if v is ne:
                                setattr(parent, f2, load)
                            elif isinstance(v, list):
                                for j, x in enumerate(v):
                                    if x is ne:
                                        v[j] = load
                lst.insert(i, new)                  # next: the new statement (a walrus inside its value), then this one again
                continue
            i += 1
    return fn


def normalise(fn, tree, cls=None, repo=None, rel=None, loops=True):
    fn = _copy.deepcopy(fn)
    ifexp_to_if(fn)
    if loops:
        comps_to_loops(fn)
    a = fn.args
    first = (a.posonlyargs + a.args)[0].arg if cls is not None and (a.posonlyargs + a.args) else None
    if any(ast.unparse(d) == "staticmethod" for d in fn.decorator_list):
        first = None
    hoist_walrus(fn)
    inline_partials(fn)
    res = _Resolver(tree, cls, repo, rel)
    _Inliner(fn, res, first)._process(fn, [fn.name])
    ifexp_to_if(fn)
    if loops:
        comps_to_loops(fn)
    hoist_walrus(fn)
    split_tuple_assigns(fn)
    split_records(fn, res)
    subst_aliases(fn)
    inline_partials(fn)
    ast.fix_missing_locations(fn)
    fn._tree = tree
    return fn


_SRC: dict = {"repo": None, "rels": {}}


def nfind(tree, name: str, cls: str | None = None, loops: bool = True) -> ast.FunctionDef:
    """find_func + normalise (the module's path and the repository come from the table filled by `parse_n`)."""
    fn = find_func(tree, name, cls)
    cnode = _class(tree, cls) if cls is not None else None
    try:
        return normalise(fn, tree, cnode, _SRC["repo"], _SRC["rels"].get(id(tree)), loops)
    except TranslationError:
        raise
    except Exception:  # noqa: BLE001 - a shape the normaliser cannot digest: the analyses read the function as written
        fn = _copy.deepcopy(fn)
        fn._tree = tree
        return fn


def parse_n(repo: Path, rel: str):
    tree = parse(repo, rel)
    _SRC["repo"] = repo
    _SRC["rels"][id(tree)] = rel
    return tree


def _is_call_to(node, names) -> bool:
    return isinstance(node, ast.Call) and ast.unparse(node.func) in names


def classify(expr: ast.AST, src_pred) -> tuple[str, ast.AST] | None:
    """('Deep'|'Alias', source expression) if expr is deepcopy(src,...) / copy(src) / src with src_pred(src)."""
    if _is_call_to(expr, {"deepcopy", "copy.deepcopy"}) and expr.args:
        if src_pred(expr.args[0]):
            extra = [a for a in expr.args[1:]] + [k.value for k in expr.keywords]
            if all(isinstance(a, ast.Name) for a in extra) and all(k.arg in ("memo",) for k in expr.keywords):
                return "Deep", expr.args[0]
        return None
    if _is_call_to(expr, {"copy", "copy.copy"}) and len(expr.args) == 1 and src_pred(expr.args[0]):
        return "Alias", expr.args[0]
    comp = expr.args[0] if _is_call_to(expr, {"list"}) and len(expr.args) == 1 and not expr.keywords else expr
    if isinstance(comp, (ast.ListComp, ast.GeneratorExp)) and (comp is not expr or isinstance(comp, ast.ListComp)):
        # [deepcopy(x) for x in <src>]: a new list of deep copies of every element (no filter, no other element expression)
        if len(comp.generators) == 1 and not comp.generators[0].ifs and isinstance(comp.generators[0].target, ast.Name) \
                and src_pred(comp.generators[0].iter):
            t = comp.generators[0].target.id
            inner = classify(comp.elt, lambda e: isinstance(e, ast.Name) and e.id == t)
            if inner is not None and inner[0] == "Deep":
                return "Deep", comp.generators[0].iter
        return None
    if src_pred(expr):
        return "Alias", expr
    return None


def self_attr(node) -> str | None:
    if isinstance(node, ast.Attribute) and isinstance(node.value, ast.Name) and node.value.id == "self":
        return node.attr
    return None


def ctor_map(init: ast.FunctionDef) -> tuple[dict, dict]:
    """param -> attribute it is stored in (self.<attr> = <param>), and param -> annotation text."""
    m = {}
    for st in ast.walk(init):
        tgt = val = None
        if isinstance(st, ast.Assign) and len(st.targets) == 1:
            tgt, val = st.targets[0], st.value
        elif isinstance(st, ast.AnnAssign) and st.value is not None:
            tgt, val = st.target, st.value
        if tgt is not None and self_attr(tgt) and isinstance(val, ast.Name):
            m.setdefault(val.id, self_attr(tgt))
    ann = {a.arg: (ast.unparse(a.annotation) if a.annotation is not None else "") for a in init.args.args}
    return m, ann


def _worst(modes):
    return "Alias" if "Alias" in modes else "Deep"


def custom_copy(tree, cls: str) -> list[tuple[str, str]]:
    """Field modes of `cls.__deepcopy__` (after normalisation: helpers inlined, aliases substituted).  Accepted: any number
    of `return <cls>(...)` (also `type(self)(...)` / `self.__class__(...)`, positional or keyword arguments), every one
    giving the same fields; plain assignments to local names (possibly in if/else branches: every binding must classify, the
    worst mode counts); conditional expressions whose branches classify (or are None); if / assert / raise / pass /
    logging.  Anything else fails closed."""
    fn = nfind(tree, "__deepcopy__", cls, loops=False)
    init = nfind(tree, "__init__", cls)
    pmap, ann = ctor_map(init)
    init_params = [a.arg for a in init.args.posonlyargs + init.args.args][1:]
    self_name = fn.args.args[0].arg if fn.args.args else "self"
    env: dict[str, list] = {}
    returns = []

    def scan(stmts):
        for st in stmts:
            if isinstance(st, ast.Assign) and all(isinstance(t, ast.Name) for t in st.targets):
                for t in st.targets:
                    env.setdefault(t.id, []).append(st.value)
            elif isinstance(st, ast.AnnAssign) and isinstance(st.target, ast.Name):
                if st.value is not None:
                    env.setdefault(st.target.id, []).append(st.value)
            elif isinstance(st, ast.If):
                scan(st.body)
                scan(st.orelse)
            elif isinstance(st, ast.Return):
                returns.append(st)
            elif isinstance(st, (ast.Pass, ast.Assert, ast.Raise)):
                pass
            elif isinstance(st, ast.Expr) and (isinstance(st.value, ast.Constant) or (
                    isinstance(st.value, ast.Call) and ast.unparse(st.value.func).split(".")[0] in (
                        "logging", "log", "logger", "warnings"))):
                pass
            else:
                fail(st, f"{cls}.__deepcopy__: only assignments to local names, if/else and returns of `{cls}(...)`")

    scan(body_no_doc(fn))
    is_self_attr = lambda e: isinstance(e, ast.Attribute) and isinstance(e.value, ast.Name) and e.value.id == self_name

    def field_mode(expr, depth=0):
        """[(mode, source attribute)] of every way the expression may be computed."""
        if depth > 4:
            fail(expr, f"{cls}.__deepcopy__: expression nested too deeply")
        if isinstance(expr, ast.Constant) and expr.value is None:
            return []
        if isinstance(expr, ast.Name) and expr.id in env:
            return [x for v in env[expr.id] for x in field_mode(v, depth + 1)]
        if isinstance(expr, ast.IfExp):
            return field_mode(expr.body, depth + 1) + field_mode(expr.orelse, depth + 1)
        c = classify(expr, is_self_attr)
        if c is None:
            fail(expr, f"{cls}.__deepcopy__: unrecognised field expression")
        return [(c[0], c[1].attr)]

    if not returns:
        fail(fn, f"{cls}.__deepcopy__ must return `{cls}(...)`")
    per_return = []
    for ret in returns:
        call = ret.value
        if not (isinstance(call, ast.Call) and ast.unparse(call.func) in (
                cls, f"type({self_name})", f"{self_name}.__class__")):
            fail(ret, f"{cls}.__deepcopy__ must return `{cls}(...)`")
        if any(isinstance(a, ast.Starred) for a in call.args) or len(call.args) > len(init_params):
            fail(ret, "*args in the constructor call")
        kws = list(zip(init_params, call.args))
        for kw in call.keywords:
            if kw.arg is None:
                fail(ret, "**kwargs in the constructor call")
            kws.append((kw.arg, kw.value))
        out = {}
        for name, expr in kws:
            ways = field_mode(expr)
            attr = pmap.get(name)
            if attr is None:
                fail(expr, f"{cls}.__init__ does not store parameter {name} in an attribute")
            for _, src in ways:
                if src != attr:
                    fail(expr, f"{cls}.__deepcopy__: {name} is fed from self.{src}, stored in self.{attr}")
            if ann.get(name) in IMMUTABLE_ANN:
                continue  # an immutable value, not a reference to a mutable object
            if not ways:
                fail(expr, f"{cls}.__deepcopy__: {name} is always None (the field is dropped)")
            out[attr] = _worst([m for m, _ in ways])
        per_return.append(out)
    first = per_return[0]
    for o in per_return[1:]:
        if list(o) != list(first):
            fail(fn, f"{cls}.__deepcopy__: the returns do not construct the same fields")
    return [(attr, _worst([o[attr] for o in per_return])) for attr in first]


def copy_site(fn: ast.FunctionDef, src_name: str, what: str) -> str:
    """Deep iff: exactly one `<v> = deepcopy(<src>)` (<v>: a local name or `self.<attr>`), every `.set(` receiver is <v>,
    <v> is returned / stored / appended to the result."""
    is_src = lambda e: isinstance(e, ast.Name) and e.id == src_name
    key = lambda e: e.id if isinstance(e, ast.Name) else (
        ast.unparse(e) if self_attr(e) is not None and src_name != "self" else None)
    bound = []
    for st in ast.walk(fn):
        tgt = val = None
        if isinstance(st, ast.Assign) and len(st.targets) == 1:
            tgt, val = st.targets[0], st.value
        elif isinstance(st, ast.AnnAssign) and st.value is not None:
            tgt, val = st.target, st.value
        if tgt is not None and key(tgt) is not None and val is not None:
            c = classify(val, is_src)
            if c is not None:
                bound.append((key(tgt), c[0]))
            elif isinstance(val, ast.List) and len(val.elts) == 1 and classify(val.elts[0], is_src):
                bound.append((key(tgt), classify(val.elts[0], is_src)[0]))
    if len(bound) != 1:
        raise TranslationError(f"{what}: expected exactly one `<v> = deepcopy({src_name})`, found {bound}")
    v, mode = bound[0]
    for node in ast.walk(fn):
        if isinstance(node, ast.Call) and isinstance(node.func, ast.Attribute) and node.func.attr == "set":
            recv = node.func.value
            if key(recv) is None:
                fail(node, f"{what}: .set on an expression")
            if key(recv) == src_name:
                mode = "Alias"  # the caller's object is modified
            elif key(recv) != v:
                fail(node, f"{what}: .set on an unknown object")
    used = "." in v                                   # bound to self.<attr>: stored
    for node in ast.walk(fn):
        if isinstance(node, ast.Return) and isinstance(node.value, ast.Name):
            if node.value.id == v:
                used = True
            elif node.value.id == src_name:
                mode = "Alias"
                used = True
        if isinstance(node, ast.Call) and isinstance(node.func, ast.Attribute) and node.func.attr == "append" \
                and len(node.args) == 1 and isinstance(node.args[0], ast.Name):
            if node.args[0].id == v:
                used = True
            elif node.args[0].id == src_name:
                mode, used = "Alias", True
        if isinstance(node, (ast.Assign, ast.AnnAssign)) and isinstance(getattr(node, "value", None), ast.Name):
            tgts = node.targets if isinstance(node, ast.Assign) else [node.target]
            if node.value.id == v and any(isinstance(t, (ast.Attribute, ast.Subscript)) for t in tgts):
                used = True                                 # stored in an attribute / container
            elif node.value.id == src_name and any(self_attr(t) is not None for t in tgts) and src_name != "self":
                mode, used = "Alias", True                  # the caller's own object is stored
    if not used:
        raise TranslationError(f"{what}: the copy `{v}` is neither returned nor stored")
    return mode


# ------------------------------------------------------------------ does a copy site write to the caller's objects?

MUTATORS = {"append", "extend", "insert", "pop", "remove", "clear", "update", "setdefault", "sort", "reverse",
            "popitem", "add", "discard", "fill", "resize", "put", "itemset", "empty", "reset", "set", "set_readout",
            "run_pipeline", "run", "__setattr__", "__setitem__", "__delattr__", "__delitem__", "__iadd__", "pop_all",
            "add_charge", "add_charge_array", "add_charge_dataframe", "setflags", "sort_values", "drop", "load"}
READERS = {"get", "has", "items", "keys", "values", "copy", "replace", "__deepcopy__", "index", "count", "to_dict",
           "to_xarray", "model_group_names", "startswith", "endswith", "split", "format", "join", "tolist", "item",
           "to_numpy", "squeeze", "groupby", "sel", "isel", "astype", "__len__", "__iter__", "__getitem__",
           "__contains__", "__repr__", "__str__", "__eq__", "__hash__", "get_bounds", "enabled_steps"}
PURE_CALLS = {"len", "isinstance", "type", "id", "repr", "str", "print", "hasattr", "getattr", "list", "tuple", "zip",
              "enumerate", "sorted", "iter", "next", "bool", "range", "min", "max", "sum", "any", "all", "dict", "set",
              "float", "int", "reversed", "vars", "dir", "callable", "issubclass", "delayed", "dask.delayed"}
COPIERS = {"deepcopy", "copy.deepcopy", "build_processors", "create_new_processor"}
DEEPCOPY = {"deepcopy", "copy.deepcopy"}


COPIER_METHODS = {"replace", "update_processor", "__deepcopy__"}


def _is_copier_call(expr) -> bool:
    """A call whose result is a fresh copy: create_new_processor(...), build_processors(...), x.replace(...),
    self.update_processor(...).  (Each of these is itself a checked copy site.)"""
    if not isinstance(expr, ast.Call):
        return False
    fname = ast.unparse(expr.func)
    if fname in COPIERS or fname.split(".")[-1] in (COPIERS - DEEPCOPY):
        return True
    return isinstance(expr.func, ast.Attribute) and expr.func.attr in COPIER_METHODS


def _root(node):
    while isinstance(node, (ast.Attribute, ast.Subscript, ast.Starred)):
        node = node.value
    return node.id if isinstance(node, ast.Name) else None


def _mentions(expr, names) -> bool:
    """Does expr mention one of `names` outside a deepcopy(...) call?"""
    if _is_call_to(expr, DEEPCOPY) or _is_copier_call(expr):
        return False
    if isinstance(expr, ast.Name):
        return expr.id in names
    return any(_mentions(c, names) for c in ast.iter_child_nodes(expr))


def _target_names(t):
    if isinstance(t, ast.Name):
        return [t.id]
    if isinstance(t, (ast.Tuple, ast.List)):
        return [n for e in t.elts for n in _target_names(e)]
    if isinstance(t, ast.Starred):
        return _target_names(t.value)
    return []


def _bindings(fn):
    """(target names, value expression) of every name-binding construct of the function."""
    for st in ast.walk(fn):
        if isinstance(st, ast.Assign):
            for t in st.targets:
                yield _target_names(t), st.value
        elif isinstance(st, ast.AnnAssign) and st.value is not None:
            yield _target_names(st.target), st.value
        elif isinstance(st, ast.AugAssign):
            yield _target_names(st.target), st.value
        elif isinstance(st, (ast.For, ast.AsyncFor)):
            yield _target_names(st.target), st.iter
        elif isinstance(st, ast.comprehension):
            yield _target_names(st.target), st.iter
        elif isinstance(st, ast.NamedExpr):
            yield _target_names(st.target), st.value
        elif isinstance(st, (ast.With, ast.AsyncWith)):
            for it in st.items:
                if it.optional_vars is not None:
                    yield _target_names(it.optional_vars), it.context_expr


def _stores(fn):
    """(root name of the target, value) of every attribute / item store `x.a.b = v`, `x[k] = v`, `x.a += v`."""
    for st in ast.walk(fn):
        tgts = st.targets if isinstance(st, ast.Assign) else \
            [st.target] if isinstance(st, (ast.AnnAssign, ast.AugAssign)) else []
        val = getattr(st, "value", None)
        if val is None:
            continue
        for tg in tgts:
            for sub in (tg.elts if isinstance(tg, (ast.Tuple, ast.List)) else [tg]):
                if isinstance(sub, (ast.Attribute, ast.Subscript)) and _root(sub) is not None:
                    yield _root(sub), val


def tainted_names(fn, src_name: str) -> set:
    """Names through which an object of the caller may be reached: the parameter, locals bound from an expression that
    mentions such a name (copier calls clean), and locals INTO which such an object was stored (`copy.pipeline =
    self.pipeline`: the copy now holds the caller's pipeline)."""
    t = {src_name}
    changed = True
    while changed:
        changed = False
        for names, val in _bindings(fn):
            if names and _mentions(val, t):
                for n in names:
                    if n not in t:
                        t.add(n)
                        changed = True
        for root, val in _stores(fn):
            if root not in t and _mentions(val, t):
                t.add(root)
                changed = True
    return t


def site_effect(fn: ast.FunctionDef, src_name: str, what: str) -> str:
    """'Pure' iff nothing derived from the processor the site is given is written to.  (`.set` on the parameter itself is
    reported by copy_site as Alias.)  Fails closed on a call it cannot classify."""
    t = tainted_names(fn, src_name)
    for node in ast.walk(fn):
        targets = []
        if isinstance(node, ast.Assign):
            targets = node.targets
        elif isinstance(node, (ast.AugAssign, ast.AnnAssign)):
            targets = [node.target]
        elif isinstance(node, ast.Delete):
            targets = node.targets
        elif isinstance(node, (ast.For, ast.AsyncFor)):
            targets = [node.target]
        for tg in targets:
            for sub in ([tg] if not isinstance(tg, (ast.Tuple, ast.List)) else tg.elts):
                if isinstance(sub, (ast.Attribute, ast.Subscript)) and _root(sub) in t:
                    return "Touches"
        if isinstance(node, ast.Call):
            fname = ast.unparse(node.func)
            args = list(node.args) + [k.value for k in node.keywords]
            if fname in ("setattr", "delattr", "object.__setattr__") and args and _root(args[0]) in t:
                return "Touches"
            if isinstance(node.func, ast.Attribute) and _root(node.func.value) in t \
                    and not _is_call_to(node.func.value, DEEPCOPY):
                m = node.func.attr
                if _root(node.func.value) == src_name and m == "set":
                    continue                      # copy_site's business
                if m in MUTATORS:
                    return "Touches"
                if m not in READERS:
                    fail(node, f"{what}: method call on an object derived from `{src_name}` that is neither a known "
                               f"reader nor a known mutator")
            elif any(_mentions(a, t) for a in args):
                short = fname.split(".")[-1]
                if short in ("run_pipeline", "run_exposure_pipeline", "run"):
                    return "Touches"                # the caller's own processor is run (a run works in place)
                if fname in COPIERS or short in COPIERS or fname in PURE_CALLS or fname.startswith("logging.") \
                        or fname.startswith("log.") or fname.startswith("logger.") or fname.startswith("self._log."):
                    continue
                if isinstance(node.func, ast.Attribute) and node.func.attr in ("append", "extend", "add", "insert"):
                    continue                      # storing a reference in a local / result container writes nothing
                if isinstance(node.func, ast.Attribute) and node.func.attr == "set":
                    continue                      # <copy>.set(..., value=<derived>): the VALUE question is src_value_copy
                fail(node, f"{what}: an object derived from `{src_name}` is passed to a call that is not known to be pure")
    return "Pure"


def value_copied(fn: ast.FunctionDef, what: str) -> bool:
    """True iff every `.set(key, value)` of the site hands over a value that the site copied itself: deepcopy(x) /
    np.array(x) / np.copy(x), `<ndarray>[a:b].copy()`, one element of an np.ndarray parameter, a conditional expression of
    such values, or a local name ALL of whose bindings are such values (a named intermediate result), or an element /
    attribute of such a name."""
    plain: dict = {}
    other = set()
    for st in ast.walk(fn):
        if isinstance(st, ast.Assign) and len(st.targets) == 1 and isinstance(st.targets[0], ast.Name):
            plain.setdefault(st.targets[0].id, []).append(st.value)
        elif isinstance(st, ast.AnnAssign) and isinstance(st.target, ast.Name):
            if st.value is not None:
                plain.setdefault(st.target.id, []).append(st.value)
    for names, val in _bindings(fn):
        for n in names:
            if not any(val is v for v in plain.get(n, [])):
                other.add(n)                       # also bound by a loop / with / tuple assignment / augmented assignment
    other |= _fn_params(fn)
    ndarray_params = {a.arg for a in fn.args.args + fn.args.kwonlyargs
                      if a.annotation is not None and ast.unparse(a.annotation) in ("np.ndarray", "numpy.ndarray")}

    def fresh(v, depth=0) -> bool:
        if depth > 4:
            return False
        if _is_call_to(v, DEEPCOPY) or _is_call_to(v, {"np.array", "numpy.array", "np.copy", "numpy.copy"}):
            return True
        if isinstance(v, ast.Call) and isinstance(v.func, ast.Attribute) and v.func.attr == "copy" \
                and not v.args and isinstance(v.func.value, ast.Subscript) \
                and isinstance(v.func.value.slice, ast.Slice):
            return True                       # <ndarray>[a:b].copy(): a new 1-D array of numbers
        if isinstance(v, ast.IfExp):
            return fresh(v.body, depth + 1) and fresh(v.orelse, depth + 1)
        if isinstance(v, ast.Subscript) and isinstance(v.value, ast.Name) and v.value.id in ndarray_params \
                and isinstance(v.slice, (ast.Name, ast.Constant)) and not _rebound(fn, v.value.id):
            return True                       # one element of a 1-D numpy array: an immutable numpy scalar
        if isinstance(v, (ast.Subscript, ast.Attribute, ast.Name)):
            r = _root(v)
            if r is not None and r in plain and r not in other:
                return all(fresh(x, depth + 1) for x in plain[r])
        return False

    ok = True
    for node in ast.walk(fn):
        if isinstance(node, ast.Call) and isinstance(node.func, ast.Attribute) and node.func.attr == "set":
            kws = {k.arg: k.value for k in node.keywords}
            v = kws.get("value", node.args[1] if len(node.args) > 1 else None)
            if v is None:
                fail(node, f"{what}: .set without a value")
            if not fresh(v):
                ok = False
    return ok


def use_site(fn: ast.FunctionDef, copier: str, what: str) -> str:
    """Deep iff every run_pipeline(processor=X) gets a name X bound from a call to `copier`."""
    bound = set()
    for st in ast.walk(fn):
        tgt = val = None
        if isinstance(st, ast.Assign) and len(st.targets) == 1:
            tgt, val = st.targets[0], st.value
        elif isinstance(st, ast.AnnAssign) and st.value is not None:
            tgt, val = st.target, st.value
        if isinstance(tgt, ast.Name) and isinstance(val, ast.Call):
            fname = ast.unparse(val.func)
            if fname == copier or fname.endswith("." + copier):
                bound.add(tgt.id)
    calls = [n for n in ast.walk(fn) if isinstance(n, ast.Call) and ast.unparse(n.func).split(".")[-1] == "run_pipeline"]
    if not calls:
        raise TranslationError(f"{what}: no run_pipeline call")
    mode = "Deep"
    for c in calls:
        kws = {k.arg: k.value for k in c.keywords}
        p = kws.get("processor", c.args[0] if c.args and not isinstance(c.args[0], ast.Starred) else None)
        if isinstance(p, ast.Call) and ast.unparse(p.func).split(".")[-1] == copier:
            continue                              # run_pipeline(processor=<copier>(...)): the copy is run directly
        if p is None or not isinstance(p, ast.Name):
            fail(c, f"{what}: run_pipeline must get processor=<name>")
        # the name must be bound from the copier and from nothing else
        others = [st for st in ast.walk(fn) if isinstance(st, (ast.Assign, ast.AnnAssign)) and any(
            p.id in _target_names(t) for t in (st.targets if isinstance(st, ast.Assign) else [st.target]))
            and st.value is not None and not (
            isinstance(st.value, ast.Call) and ast.unparse(st.value.func).split(".")[-1] == copier)]
        if p.id not in bound or others:
            mode = "Alias"
    return mode


# ------------------------------------------------------------------ where do the run sites put the seed bracket?

SEED_BRACKETS = {"set_random_seed", "pyxel.util.set_random_seed", "util.set_random_seed"}
RNG_STATE_CALLS = {"np.random.seed", "numpy.random.seed", "np.random.set_state", "numpy.random.set_state",
                   "np.random.default_rng", "numpy.random.default_rng", "random.seed"}
SEED_ATTRS = ("pipeline_seed", "_pipeline_seed")


def _fn_params(fn) -> set:
    a = fn.args
    return {x.arg for x in a.posonlyargs + a.args + a.kwonlyargs}


def _rebound(fn, name: str) -> bool:
    return any(name in names for names, _ in _bindings(fn))


def seed_kind(expr, fn, what: str, _depth: int = 0) -> str:
    """'seed' (the user's pipeline_seed held by self), 'param' (the function's own parameter `pipeline_seed`, handed on
    unchanged), 'none' (no seed)."""
    if expr is None or (isinstance(expr, ast.Constant) and expr.value is None):
        return "none"
    if isinstance(expr, ast.Attribute) and isinstance(expr.value, ast.Name) and expr.value.id == "self" \
            and expr.attr in SEED_ATTRS:
        return "seed"
    if isinstance(expr, ast.Name) and expr.id == "pipeline_seed" and expr.id in _fn_params(fn):
        if _rebound(fn, "pipeline_seed"):
            fail(expr, f"{what}: `pipeline_seed` is re-bound inside the function")
        return "param"
    if isinstance(expr, ast.Name) and expr.id not in _fn_params(fn) and _depth < 3:
        # a local alias: bound exactly once, by a plain assignment, to a recognised seed expression
        vals = [val for names, val in _bindings(fn) if expr.id in names]
        plain = [st for st in ast.walk(fn) if isinstance(st, (ast.Assign, ast.AnnAssign)) and any(
            isinstance(t, ast.Name) and t.id == expr.id for t in (st.targets if isinstance(st, ast.Assign) else [st.target]))]
        if len(vals) == 1 and len(plain) == 1:
            return seed_kind(vals[0], fn, what, _depth + 1)
    if isinstance(expr, ast.Name) and expr.id not in _fn_params(fn) and not _rebound(fn, expr.id) and _depth < 3:
        # a constant moved to module level: exactly one module-level assignment
        tree = getattr(fn, "_tree", None)
        vals = [st.value for st in (tree.body if tree is not None else []) if (
            isinstance(st, ast.Assign) and any(expr.id in _target_names(t) for t in st.targets)) or (
            isinstance(st, ast.AnnAssign) and st.value is not None and _target_names(st.target) == [expr.id])]
        if len(vals) == 1 and isinstance(vals[0], ast.Constant):
            return seed_kind(vals[0], fn, what, _depth + 1)
    fail(expr, f"{what}: unrecognised seed expression")


def _bracket_seed(expr):
    """The seed expression of `set_random_seed(<seed>)`, or False when expr is no seed bracket."""
    if not (isinstance(expr, ast.Call) and ast.unparse(expr.func) in SEED_BRACKETS):
        return False
    kws = {k.arg: k.value for k in expr.keywords}
    return kws.get("seed", expr.args[0] if expr.args else None)


def calls_in_context(fn, pred, what: str):
    """[(call, stack)] for every call of fn satisfying pred; stack (outermost first) lists the enclosing
    ('with', seed kind) seed brackets and ('loop',) loops / comprehensions."""
    out = []

    def walk(node, stack):
        if isinstance(node, (ast.With, ast.AsyncWith)):
            new = list(stack)
            for it in node.items:
                sd = _bracket_seed(it.context_expr)
                if sd is not False:
                    new.append(("with", seed_kind(sd, fn, what)))
                else:
                    walk(it.context_expr, stack)
            for st in node.body:
                walk(st, new)
            return
        if isinstance(node, (ast.For, ast.AsyncFor)):
            walk(node.iter, stack)
            for st in node.body + node.orelse:
                walk(st, stack + [("loop",)])
            return
        if isinstance(node, ast.While):
            for st in [node.test] + node.body + node.orelse:
                walk(st, stack + [("loop",)])
            return
        if isinstance(node, (ast.ListComp, ast.SetComp, ast.GeneratorExp, ast.DictComp)):
            walk(node.generators[0].iter, stack)
            inner = stack + [("loop",)]
            for i, g in enumerate(node.generators):
                if i:
                    walk(g.iter, inner)
                for c in g.ifs:
                    walk(c, inner)
            for e in ([node.key, node.value] if isinstance(node, ast.DictComp) else [node.elt]):
                walk(e, inner)
            return
        if isinstance(node, ast.Call):
            fname = ast.unparse(node.func)
            if fname in RNG_STATE_CALLS:
                fail(node, f"{what}: the generator is seeded / its state set by hand")
            if fname in SEED_BRACKETS:
                fail(node, f"{what}: set_random_seed used outside a `with` statement")
            if pred(node):
                out.append((node, list(stack)))
        for child in ast.iter_child_nodes(node):
            walk(child, stack)

    for st in fn.body:
        walk(st, [])
    return out


def _is_run_pipeline(node) -> bool:
    return ast.unparse(node.func).split(".")[-1] == "run_pipeline"


def _kw(call, name):
    return {k.arg: k.value for k in call.keywords}.get(name)


def decide_seeding(stack, kind: str, run_loop: int, what: str) -> str:
    """stack: brackets / loops around the run_pipeline call (outermost first); kind: what run_pipeline gets as
    pipeline_seed; run_loop: index in stack of the loop over the runs (brackets before it surround ALL runs)."""
    if kind == "seed":
        return "SeedEachRun"                       # run_pipeline brackets the run itself
    if kind != "none":
        raise TranslationError(f"{what}: seed of kind {kind} not resolved")
    per_run = [e for e in stack[run_loop + 1:] if e[0] == "with" and e[1] == "seed"]
    inner_loop = any(e[0] == "loop" for e in stack[run_loop + 1:])
    per_call = [e for e in stack[:max(run_loop, 0)] if e[0] == "with" and e[1] == "seed"]
    if per_run and not inner_loop:
        return "SeedEachRun"
    if per_run and inner_loop:
        # a bracket inside the run loop but around a further loop: accepted only when it is the innermost construct
        last_with = max(i for i, e in enumerate(stack) if e[0] == "with" and e[1] == "seed")
        if not any(e[0] == "loop" for e in stack[last_with + 1:]):
            return "SeedEachRun"
        return "SeedOncePerCall"
    if per_call:
        return "SeedOncePerCall"
    return "SeedNever"


def _self_seed_is_users(cls_node, what: str) -> bool:
    """Does `self.pipeline_seed` hold the constructor's `pipeline_seed` argument (directly or through the property)?"""
    init = [n for n in cls_node.body if isinstance(n, ast.FunctionDef) and n.name == "__init__"]
    if len(init) != 1 or "pipeline_seed" not in _fn_params(init[0]):
        return False
    # nobody but the constructor and the property setter stores the seed (an object that moves its seed on from call
    # to call gives the second call another seed than the user configured)
    for n in cls_node.body:
        if isinstance(n, ast.FunctionDef) and n.name not in ("__init__", "pipeline_seed"):
            for st in ast.walk(n):
                tgts = st.targets if isinstance(st, (ast.Assign, ast.Delete)) else \
                    [st.target] if isinstance(st, (ast.AugAssign, ast.AnnAssign)) else []
                if any(self_attr(t) in SEED_ATTRS for t in tgts):
                    fail(st, f"{what}: {cls_node.name}.{n.name} changes the stored pipeline seed")
    stored = set()
    for st in ast.walk(init[0]):
        tgt = val = None
        if isinstance(st, ast.Assign) and len(st.targets) == 1:
            tgt, val = st.targets[0], st.value
        elif isinstance(st, ast.AnnAssign) and st.value is not None:
            tgt, val = st.target, st.value
        if tgt is not None and self_attr(tgt) in SEED_ATTRS:
            if isinstance(val, ast.Name) and val.id == "pipeline_seed":
                stored.add(self_attr(tgt))
            else:
                return False
    if "pipeline_seed" in stored:
        return True
    if "_pipeline_seed" in stored:
        for n in cls_node.body:
            if isinstance(n, ast.FunctionDef) and n.name == "pipeline_seed" and any(
                    ast.unparse(d) == "property" for d in n.decorator_list):
                b = body_no_doc(n)
                return len(b) == 1 and isinstance(b[0], ast.Return) and self_attr(b[0].value) == "_pipeline_seed"
    return False


def _class(tree, name):
    c = [n for n in ast.walk(tree) if isinstance(n, ast.ClassDef) and n.name == name]
    if len(c) != 1:
        raise TranslationError(f"class {name}: found {len(c)}")
    return c[0]


def _agree(vals, what):
    vals = set(vals)
    if len(vals) != 1:
        raise TranslationError(f"{what}: the run_pipeline calls are seeded in different ways: {sorted(vals)}")
    return vals.pop()


def _single_binding(fn, expr):
    """The value of a local name bound exactly once by a plain assignment (a named intermediate result); else expr."""
    for _ in range(3):
        if not (isinstance(expr, ast.Name) and expr.id not in _fn_params(fn)):
            break
        vals = [val for names, val in _bindings(fn) if expr.id in names]
        plain = [st for st in ast.walk(fn) if isinstance(st, (ast.Assign, ast.AnnAssign)) and st.value is not None and any(
            isinstance(t, ast.Name) and t.id == expr.id for t in (st.targets if isinstance(st, ast.Assign) else [st.target]))]
        if len(vals) != 1 or len(plain) != 1:
            break
        expr = plain[0].value
    return expr


def _as_dict(expr):
    """`dict(k=v, ...)` as the literal `{"k": v, ...}`."""
    if _is_call_to(expr, {"dict"}) and not expr.args and all(k.arg is not None for k in expr.keywords):
        return ast.copy_location(ast.Dict(keys=[ast.Constant(value=k.arg) for k in expr.keywords],
                                          values=[k.value for k in expr.keywords]), expr)
    return expr


def seeding_rows(obs, dsk, fit, cal) -> list:
    rows = []
    # ---- observation, loop path: run_pipelines -> [ _run_single_pipeline(el) for el in parameters ] -> run_pipeline
    what = "Observation.run_pipelines (loop)"
    ocls = _class(obs, "Observation")
    users = _self_seed_is_users(ocls, what)
    f_single = nfind(obs, "_run_single_pipeline", "Observation")
    f_runs = nfind(obs, "run_pipelines", "Observation")
    inner = calls_in_context(f_single, _is_run_pipeline, what)
    outer = calls_in_context(f_runs, lambda c: ast.unparse(c.func).split(".")[-1] == "_run_single_pipeline", what)
    if not inner or not outer:
        raise TranslationError(f"{what}: run_pipeline / _run_single_pipeline call not found")
    res = []
    for oc, ostack in outer:
        loops = [i for i, e in enumerate(ostack) if e[0] == "loop"]
        if not loops:
            raise TranslationError(f"{what}: _run_single_pipeline is not called in a loop over the parameter items")
        for ic, istack in inner:
            kind = seed_kind(_kw(ic, "pipeline_seed"), f_single, what)
            if kind == "param":
                kind = seed_kind(_kw(oc, "pipeline_seed"), f_runs, what)
            if kind == "seed" and not users:
                kind = "none"
            stack = [(e[0], ("seed" if users else "none")) if e[0] == "with" and e[1] == "seed" else e
                     for e in ostack + istack]
            res.append(decide_seeding(stack, kind, loops[-1], what))
    rows.append(("Observation.run_pipelines", _agree(res, what)))
    # ---- observation, dask path: the seed is handed down run_pipelines -> run_pipelines_with_dask -> apply_ufunc kwargs
    #      -> _run_pipelines_tuple_to_array -> _run_pipelines_array_to_datatree -> run_pipeline
    what = "observation_dask"
    f_arr = nfind(dsk, "_run_pipelines_array_to_datatree")
    f_tup = nfind(dsk, "_run_pipelines_tuple_to_array")
    f_dask = nfind(dsk, "run_pipelines_with_dask")

    def passed(fn, callee, where):
        """kinds with which fn hands pipeline_seed to callee (direct call, or kwargs={...} of a call that gets the callee)"""
        hits = calls_in_context(fn, lambda c: ast.unparse(c.func).split(".")[-1] == callee or any(
            isinstance(a, ast.Name) and a.id == callee for a in c.args), where)
        out = []
        for c, stack in hits:
            if any(e[0] == "with" for e in stack):
                raise TranslationError(f"{where}: a seed bracket around a (lazily computed) dask call")
            if ast.unparse(c.func).split(".")[-1] == callee:
                out.append(seed_kind(_kw(c, "pipeline_seed"), fn, where))
            else:
                kwargs = _as_dict(_single_binding(fn, _kw(c, "kwargs")))
                if not isinstance(kwargs, ast.Dict) and _kw(c, "pipeline_seed") is not None:
                    out.append(seed_kind(_kw(c, "pipeline_seed"), fn, where))     # functools.partial(callee, pipeline_seed=..)
                    continue
                if not isinstance(kwargs, ast.Dict):
                    fail(c, f"{where}: {callee} handed to a call without a literal kwargs dict")
                d = {k.value: v for k, v in zip(kwargs.keys, kwargs.values) if isinstance(k, ast.Constant)}
                out.append(seed_kind(d.get("pipeline_seed"), fn, where))
        return out

    kinds = []
    for c, stack in calls_in_context(f_arr, _is_run_pipeline, what):
        if any(e[0] == "with" for e in stack):
            raise TranslationError(f"{what}: seed bracket around run_pipeline in _run_pipelines_array_to_datatree")
        kinds.append(seed_kind(_kw(c, "pipeline_seed"), f_arr, what))
    if not kinds:
        raise TranslationError(f"{what}: no run_pipeline call")
    k = _agree(kinds, what)
    if k == "param":
        links = passed(f_tup, "_run_pipelines_array_to_datatree", what) + \
                passed(f_dask, "_run_pipelines_array_to_datatree", what) + \
                passed(f_dask, "_run_pipelines_tuple_to_array", what)
        if not links:
            raise TranslationError(f"{what}: nobody calls _run_pipelines_array_to_datatree")
        k = _agree(links, what)
        if k == "param":
            top = passed(f_runs, "run_pipelines_with_dask", "Observation.run_pipelines (dask)")
            if not top:
                raise TranslationError("Observation.run_pipelines: run_pipelines_with_dask is not called")
            k = _agree(top, what)
            if k == "param":
                raise TranslationError("Observation.run_pipelines has no pipeline_seed parameter to hand on")
    if k == "seed" and not users:
        k = "none"
    rows.append(("dask.run_pipelines_with_dask", "SeedEachRun" if k == "seed" else "SeedNever"))
    # ---- calibration: Calibration.run_calibration -> ModelFittingDataTree(pipeline_seed=self.pipeline_seed) -> fitness /
    #      _apply_parameters -> run_pipeline(pipeline_seed=self.pipeline_seed)
    fcls = _class(fit, "ModelFittingDataTree")
    ccls = _class(cal, "Calibration")
    handed = False
    for node in ast.walk(ccls):
        if isinstance(node, ast.Call) and ast.unparse(node.func).split(".")[-1] == "ModelFittingDataTree":
            v = _kw(node, "pipeline_seed")
            handed = self_attr(v) in SEED_ATTRS if v is not None else False
            if not handed:
                break
    users_fit = _self_seed_is_users(fcls, "ModelFittingDataTree") and _self_seed_is_users(ccls, "Calibration") and handed
    for name in ("fitness", "_apply_parameters"):
        what = f"ModelFittingDataTree.{name}"
        fn = nfind(fit, name, "ModelFittingDataTree")
        res = []
        for c, stack in calls_in_context(fn, _is_run_pipeline, what):
            kind = seed_kind(_kw(c, "pipeline_seed"), fn, what)
            if kind == "param":
                raise TranslationError(f"{what}: has no caller inside pyxel that could hand a seed on")
            if kind == "seed" and not users_fit:
                kind = "none"
            stack = [(e[0], ("seed" if users_fit else "none")) if e[0] == "with" and e[1] == "seed" else e for e in stack]
            loops = [i for i, e in enumerate(stack) if e[0] == "loop"]
            res.append(decide_seeding(stack, kind, loops[0] if loops else -1, what))
        if not res:
            raise TranslationError(f"{what}: no run_pipeline call")
        rows.append((what, _agree(res, what)))
    return rows


# ------------------------------------------------------------------ the pickle route (multi-process / distributed schedulers)

def pickle_policy(proc_tree, grp_tree, proc_fields) -> tuple:
    """The copy policy of a pickle round trip.  Processor has no pickle hook (scan_hooks): every field goes through.
    ModelGroup.__getstate__ / __setstate__ (when present): `return {"k": tuple|list(self.models) | self.models, ...}` and
    `self.models = list|tuple(state["k"]) | state["k"]` -> Deep; the models not restored -> Drop; anything else fails closed
    (a filtered, sorted, re-built list is not the user's list of models)."""
    procs = [(f, "Deep") for f, _ in proc_fields]
    get = find_funcs(grp_tree, "__getstate__", "ModelGroup")
    sett = find_funcs(grp_tree, "__setstate__", "ModelGroup")
    if not get and not sett:
        return procs, [("models", "Deep")]
    if len(get) != 1 or len(sett) != 1:
        raise TranslationError("ModelGroup: __getstate__ and __setstate__ must both be defined (once)")
    gfn = nfind(grp_tree, "__getstate__", "ModelGroup", loops=False)
    gb = body_no_doc(gfn)
    # `return {...}` / `return dict(k=...)`, possibly through one named intermediate (`state = {...}; return state`)
    if len(gb) == 2 and isinstance(gb[0], (ast.Assign, ast.AnnAssign)) and isinstance(gb[1], ast.Return) \
            and isinstance(gb[1].value, ast.Name) and _target_names(
                gb[0].targets[0] if isinstance(gb[0], ast.Assign) and len(gb[0].targets) == 1 else
                getattr(gb[0], "target", ast.Pass())) == [gb[1].value.id] and gb[0].value is not None:
        gb = [ast.copy_location(ast.Return(value=gb[0].value), gb[1])]
    if len(gb) == 1 and isinstance(gb[0], ast.Return) and _is_call_to(gb[0].value, {"dict"}) and not gb[0].value.args \
            and all(k.arg is not None for k in gb[0].value.keywords):
        gb = [ast.copy_location(ast.Return(value=ast.Dict(
            keys=[ast.Constant(value=k.arg) for k in gb[0].value.keywords],
            values=[k.value for k in gb[0].value.keywords])), gb[0])]
    if not (len(gb) == 1 and isinstance(gb[0], ast.Return) and isinstance(gb[0].value, ast.Dict)):
        fail(get[0], "ModelGroup.__getstate__ must be `return {...}`")
    key = None
    for k, v in zip(gb[0].value.keys, gb[0].value.values):
        if not (isinstance(k, ast.Constant) and isinstance(k.value, str)):
            fail(gb[0], "ModelGroup.__getstate__: non-literal key")
        txt = ast.unparse(v)
        if "models" in txt:
            if txt not in ("tuple(self.models)", "list(self.models)", "self.models"):
                fail(v, "ModelGroup.__getstate__: the models are not handed over as they are")
            key = k.value
        elif self_attr(v) is None and not isinstance(v, ast.Constant):
            fail(v, "ModelGroup.__getstate__: unrecognised value")
    if key is None:
        return procs, [("models", "Drop")]
    state = sett[0].args.args[1].arg if len(sett[0].args.args) > 1 else None
    mode = "Drop"
    for st in body_no_doc(nfind(grp_tree, "__setstate__", "ModelGroup", loops=False)):
        tgt = val = None
        if isinstance(st, ast.Assign) and len(st.targets) == 1:
            tgt, val = st.targets[0], st.value
        elif isinstance(st, ast.AnnAssign) and st.value is not None:
            tgt, val = st.target, st.value
        if tgt is None or self_attr(tgt) is None:
            fail(st, "ModelGroup.__setstate__: only `self.<attr> = ...` statements")
        if self_attr(tgt) == "models":
            ok = {f"list({state}['{key}'])", f"tuple({state}['{key}'])", f"{state}['{key}']"}
            if ast.unparse(val) not in ok:
                fail(st, "ModelGroup.__setstate__: the models are not restored as they were handed over")
            mode = "Deep"
        elif "models" in ast.unparse(val):
            fail(st, "ModelGroup.__setstate__: the models are stored somewhere else")
    return procs, [("models", mode)]


def scan_hooks(repo: Path):
    for d in SCAN_DIRS:
        for f in sorted((repo / d).rglob("*.py")):
            try:
                tree = ast.parse(f.read_text())
            except SyntaxError as ex:
                raise TranslationError(f"{f}: {ex}") from ex
            for node in ast.walk(tree):
                if isinstance(node, ast.ClassDef):
                    for st in node.body:
                        if isinstance(st, (ast.FunctionDef, ast.AsyncFunctionDef)) and st.name in HOOKS \
                                and (node.name, st.name) not in ALLOWED_HOOKS:
                            raise TranslationError(
                                f"{f.relative_to(repo)}: class {node.name} defines {st.name} (unmodelled custom copy)")


def extract(repo: Path) -> dict:
    _SRC["rels"].clear()
    proc = parse_n(repo, "pyxel/pipelines/processor.py")
    grp = parse_n(repo, "pyxel/pipelines/model_group.py")
    misc = parse_n(repo, "pyxel/observation/misc.py")
    obs = parse_n(repo, "pyxel/observation/observation.py")
    dsk = parse_n(repo, "pyxel/observation/observation_dask.py")
    fit = parse_n(repo, "pyxel/calibration/fitting_datatree.py")
    cal = parse_n(repo, "pyxel/calibration/calibration.py")
    scan_hooks(repo)
    pf = custom_copy(proc, "Processor")
    gf = custom_copy(grp, "ModelGroup")
    sites = [
        ("create_new_processor", copy_site(nfind(misc, "create_new_processor"), "processor", "create_new_processor")),
        ("Processor.replace", copy_site(nfind(proc, "replace", "Processor"), "self", "Processor.replace")),
        ("update_processor", copy_site(nfind(fit, "update_processor", "ModelFittingDataTree"), "processor",
                                       "update_processor")),
        ("build_processors", copy_site(nfind(fit, "build_processors"), "processor", "build_processors")),
        ("ModelFittingDataTree.__init__", copy_site(nfind(fit, "__init__", "ModelFittingDataTree"), "processor",
                                                    "ModelFittingDataTree.__init__")),
        ("Observation._run_single_pipeline", use_site(nfind(obs, "_run_single_pipeline", "Observation"),
                                                      "create_new_processor", "_run_single_pipeline")),
        ("dask._run_pipelines_array_to_datatree", use_site(nfind(dsk, "_run_pipelines_array_to_datatree"),
                                                           "replace", "_run_pipelines_array_to_datatree")),
        ("ModelFittingDataTree.fitness", use_site(nfind(fit, "fitness", "ModelFittingDataTree"),
                                                  "update_processor", "fitness")),
        ("ModelFittingDataTree._apply_parameters", use_site(nfind(fit, "_apply_parameters", "ModelFittingDataTree"),
                                                            "update_processor", "_apply_parameters")),
    ]
    copy_fns = [
        ("create_new_processor", nfind(misc, "create_new_processor"), "processor"),
        ("Processor.replace", nfind(proc, "replace", "Processor"), "self"),
        ("update_processor", nfind(fit, "update_processor", "ModelFittingDataTree"), "processor"),
        ("build_processors", nfind(fit, "build_processors"), "processor"),
        ("ModelFittingDataTree.__init__", nfind(fit, "__init__", "ModelFittingDataTree"), "processor"),
    ]
    effects = [(name, site_effect(fn, src, name)) for name, fn, src in copy_fns + [
        ("Observation._run_single_pipeline", nfind(obs, "_run_single_pipeline", "Observation"), "processor"),
        ("dask._run_pipelines_array_to_datatree", nfind(dsk, "_run_pipelines_array_to_datatree"), "processor"),
    ]]
    vcopy = [(name, value_copied(fn, name)) for name, fn, src in copy_fns]
    ppf, pgf = pickle_policy(proc, grp, pf)
    return dict(proc_fields=pf, group_fields=gf, sites=sites, effects=effects, value_copy=vcopy,
                seeding=seeding_rows(obs, dsk, fit, cal), pickle_proc=ppf, pickle_group=pgf)


def render(d: dict) -> str:
    def tbl(rows):
        return "[" + "; ".join(f'("{n}", {m})' for n, m in rows) + "]"
    return (HEADER +
            "From Coq Require Import String List.\nFrom PyxelV Require Import Model.Heap Model.HeapExc Model.HeapRng.\n"
            "Import ListNotations.\nOpen Scope string_scope.\n"
            f"Definition src_policy : policy := mkPolicy {tbl(d['proc_fields'])} {tbl(d['group_fields'])}.\n"
            f"Definition src_sites : list (string * cmode) := {tbl(d['sites'])}.\n"
            f"Definition src_site_effects : list (string * effect) := {tbl(d['effects'])}.\n"
            "Definition src_value_copy : list (string * bool) := "
            f"{tbl([(n, 'true' if b else 'false') for n, b in d['value_copy']])}.\n"
            f"Definition src_seeding : list (string * seeding) := {tbl(d['seeding'])}.\n"
            f"Definition src_pickle_policy : policy := mkPolicy {tbl(d['pickle_proc'])} {tbl(d['pickle_group'])}.\n")


def translate(repo: Path) -> str:
    return render(extract(repo))


FALLBACK_DATA = dict(
    proc_fields=[("detector", "Deep"), ("pipeline", "Deep"), ("observation", "Deep")],
    group_fields=[("models", "Deep")],
    sites=[(s, "Deep") for s in (
        "create_new_processor", "Processor.replace", "update_processor", "build_processors",
        "ModelFittingDataTree.__init__", "Observation._run_single_pipeline",
        "dask._run_pipelines_array_to_datatree", "ModelFittingDataTree.fitness",
        "ModelFittingDataTree._apply_parameters")],
    effects=[(s, "Pure") for s in COPY_SITES + ("Observation._run_single_pipeline",
                                                "dask._run_pipelines_array_to_datatree")],
    value_copy=[(s, s in ("create_new_processor", "update_processor", "ModelFittingDataTree.__init__"))
                for s in COPY_SITES],
    seeding=[(s, "SeedEachRun") for s in ("Observation.run_pipelines", "dask.run_pipelines_with_dask",
                                          "ModelFittingDataTree.fitness", "ModelFittingDataTree._apply_parameters")],
    pickle_proc=[("detector", "Deep"), ("pipeline", "Deep"), ("observation", "Deep")],
    pickle_group=[("models", "Deep")],
)
FALLBACK = render(FALLBACK_DATA)
