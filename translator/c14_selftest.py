"""Self-test of translator/c14.py on SHAPE VARIANTS of the current source (translator only, a few seconds):
behaviour-preserving rewrites must give the same table as the unchanged source (`same`) or an equivalent one the
theorems re-prove (`differs-ok`); look-alike breaking rewrites must give a different table (`differs-bad`: a theorem
over Gen_C14.v then fails) or fail closed (`failclosed`).  Every variant is an edit of the text of the CURRENT
charge.py / geometry.py (so it follows the repository), never a stored patch.

    cd /verif && /venv/bin/python -m translator.c14_selftest [repo]        exit 0 = every expectation met
    ... --prove : additionally compile Gen_C14.v + Properties/C14.v for every variant whose table differs (one coqc
                  at a time, ~15 s each): `differs-ok` must re-prove every theorem, `differs-bad` must break one
"""
import ast
import difflib
import sys
from pathlib import Path

from harness.core import TranslationError
from translator import c14 as tr

CH = "pyxel/data_structure/charge.py"
GE = "pyxel/detectors/geometry.py"
PROVE = "--prove" in sys.argv
_pos = [a for a in sys.argv[1:] if not a.startswith("--")]
REPO = Path(_pos[0] if _pos else "/repo")
src = {CH: (REPO / CH).read_text(), GE: (REPO / GE).read_text()}


def run(files):
    orig = tr.parse
    tr.parse = lambda repo, rel: ast.parse(files[rel])
    try:
        t = tr.translate(Path("/nonexistent"))
        if t == tr.FALLBACK:
            return "same", ""
        d = [l for l in difflib.unified_diff(tr.FALLBACK.splitlines(), t.splitlines(), lineterm="", n=0)
             if l[0] == "+" and l[:3] != "+++"]
        return "differs", " | ".join(x[:150] for x in d)
    except TranslationError as ex:
        return "failclosed", str(ex)[:160]
    finally:
        tr.parse = orig


def ed(key, old, new):
    def f(files):
        assert old in files[key], old
        files[key] = files[key].replace(old, new, 1)
    return f

MASK = '''        inside = (
            (pixel_index_ver >= 0)
            & (pixel_index_ver < self._geo.row)
            & (pixel_index_hor >= 0)
            & (pixel_index_hor < self._geo.col)
        )
'''
LOOP = '''            for i, charge_value in enumerate(charge_per_pixel):
                array[pixel_index_ver[i], pixel_index_hor[i]] += charge_value
'''
HELP = "from pyxel.util import convert_unit\n"
# --- text blocks of convert_array_to_df / create_charges, cut from the CURRENT source
_c = src[CH]
VCALL = _c[_c.index("        vertical_pixel_center_pos_1d = get_vertical_pixel_center_pos("):_c.index("        horizontal_pixel_center_pos_1d = get_horizontal_pixel_center_pos(")].rstrip("\n") + "\n"
HCALL = _c[_c.index("        horizontal_pixel_center_pos_1d = get_horizontal_pixel_center_pos("):_c.index("        init_ver_pix_position_1d = ")].rstrip("\n") + "\n"
VKW = "            num_rows=num_rows,\n            num_cols=num_cols,\n"
_a = _c.index("        new_charges: Mapping[str, Sequence | np.ndarray] = {")
COLDICT = _c[_a:_c.index("        }\n", _a) + len("        }\n")]
COLPAIRS = [(k.value, ast.unparse(v)) for k, v in zip(ast.parse(COLDICT.strip().split("=", 1)[1].strip()).body[0].value.keys,
                                                      ast.parse(COLDICT.strip().split("=", 1)[1].strip()).body[0].value.values)]
COLKEYS = "(" + ", ".join(repr(k) for k, _ in COLPAIRS) + ",)"
COLVALS = "(" + ", ".join(v for _, v in COLPAIRS) + ",)"
_x = dict(COLPAIRS); _x["number"], _x["energy"] = _x["energy"], _x["number"]
COLVALS_X = "(" + ", ".join(_x[k] for k, _ in COLPAIRS) + ",)"
_kx = [k for k, _ in COLPAIRS]; _i1, _i2 = _kx.index("position_ver"), _kx.index("position_hor"); _kx[_i1], _kx[_i2] = _kx[_i2], _kx[_i1]
COLKEYS_X = "(" + ", ".join(repr(k) for k in _kx) + ",)"
COLVALS_SHORT = "(" + ", ".join(v for _, v in COLPAIRS[:1]) + ",)"
_a = _c.index('        if particle_type == "e":')
SIGN = _c[_a:_c.index('raise ValueError("Given charged particle type can not be simulated")\n', _a) + len('raise ValueError("Given charged particle type can not be simulated")\n')]
GVER = "    init_ver_position = np.arange(0.0, num_rows, 1.0) * pixel_vertical_size\n    init_ver_position += pixel_vertical_size / 2.0\n"


def addfile(rel, text):
    def f(files):
        files[rel] = text
    return f


CASES = [
 ("tuple-unpack rows/cols", "same|differs-ok", [ed(CH, "        array = np.zeros((self._geo.row, self._geo.col))", "        rows, cols = self._geo.row, self._geo.col\n        array = np.zeros((rows, cols))"),
     ed(CH, MASK, MASK.replace("self._geo.row", "rows").replace("self._geo.col", "cols"))]),
 ("mask via module helper _inside", "differs-ok", [ed(CH, HELP, HELP + "\n\ndef _inside(index, count):\n    return (index >= 0) & (index < count)\n"),
     ed(CH, MASK, "        inside = _inside(pixel_index_ver, self._geo.row) & _inside(count=self._geo.col, index=pixel_index_hor)\n")]),
 ("BREAK mask helper given wrong dimension", "differs-bad", [ed(CH, HELP, HELP + "\n\ndef _inside(index, count):\n    return (index >= 0) & (index < count)\n"),
     ed(CH, MASK, "        inside = _inside(pixel_index_ver, self._geo.row) & _inside(pixel_index_hor, self._geo.row)\n")]),
 ("BREAK mask helper, argument dropped (default count)", "differs-bad", [ed(CH, HELP, HELP + "\n\ndef _inside(index, count=1):\n    return (index >= 0) & (index < count)\n"),
     ed(CH, MASK, "        inside = _inside(pixel_index_ver, self._geo.row) & _inside(pixel_index_hor)\n")]),
 ("range(0, n, 1) with n = len()", "same", [ed(CH, LOOP, "            n = len(charge_per_pixel)\n            for k in range(0, n, 1):\n                array[pixel_index_ver[k], pixel_index_hor[k]] += charge_per_pixel[k]\n")]),
 ("kernel params aliased", "same", [ed(CH, LOOP, "            out = array\n            rows = pixel_index_ver\n            for k in range(charge_per_pixel.shape[0]):\n                r = rows[k]\n                out[r, pixel_index_hor[k]] += charge_per_pixel[k]\n")]),
 ("BREAK alias then reassign index arrays (swap)", "differs-bad|failclosed", [ed(CH, MASK, MASK + "        tmp = pixel_index_ver\n        pixel_index_ver = pixel_index_hor\n        pixel_index_hor = tmp\n")]),
 ("harmless alias then reassign (swap twice)", "same", [ed(CH, MASK, MASK + "        tmp = pixel_index_ver\n        pixel_index_ver = pixel_index_hor\n        pixel_index_hor = tmp\n        pixel_index_ver, pixel_index_hor = pixel_index_hor, pixel_index_ver\n")]),
 ("BREAK loop-local alias reassigned before the store", "failclosed|differs-bad", [ed(CH, LOOP, "            for k in range(len(charge_per_pixel)):\n                r = pixel_index_ver[k]\n                r = pixel_index_hor[k]\n                array[r, pixel_index_hor[k]] += charge_per_pixel[k]\n")]),
 ("BREAK in-place update of an aliased index array", "failclosed", [ed(CH, MASK, "        shifted = pixel_index_ver\n        shifted += 1\n" + MASK)]),
 ("threshold as module constant, >=", "differs-bad", [ed(CH, HELP, HELP + "\n_THR = 0.0\n"), ed(CH, "np.where(charge_number > 0.0)", "np.where(charge_number >= _THR)")]),
 ("threshold as module constant", "same", [ed(CH, HELP, HELP + "\n_THR = 0.0\n"), ed(CH, "np.where(charge_number > 0.0)", "np.where(charge_number > _THR)")]),
 ("BREAK module constant reassigned later", "failclosed", [ed(CH, HELP, HELP + "\n_THR = 0.0\n_THR = 1.0\n"), ed(CH, "np.where(charge_number > 0.0)", "np.where(charge_number > _THR)")]),
 ("geometry: centre helper with default half", "same", [ed(GE, "from pyxel.util import get_size\n", "from pyxel.util import get_size\n\n\ndef _centres(n, s, offset=0.5):\n    return (np.arange(n) + offset) * s\n"),
     ed(GE, "    init_ver_position = np.arange(0.0, num_rows, 1.0) * pixel_vertical_size\n    init_ver_position += pixel_vertical_size / 2.0\n", "    init_ver_position = _centres(num_rows, pixel_vertical_size)\n")]),
 ("BREAK geometry: centre helper called with counts swapped", "failclosed|differs-bad", [ed(GE, "from pyxel.util import get_size\n", "from pyxel.util import get_size\n\n\ndef _centres(n, s, offset=0.5):\n    return (np.arange(n) + offset) * s\n"),
     ed(GE, "    init_ver_position = np.arange(0.0, num_rows, 1.0) * pixel_vertical_size\n    init_ver_position += pixel_vertical_size / 2.0\n", "    init_ver_position = _centres(num_cols, pixel_vertical_size)\n")]),
 ("staticmethod helper for the index", "same", [ed(CH, "    def convert_df_to_array(self) -> np.ndarray:", "    @staticmethod\n    def _index_of(pos, size):\n        return np.floor_divide(pos, size).astype(int)\n\n    def convert_df_to_array(self) -> np.ndarray:"),
     ed(CH, "        pixel_index_ver = np.floor_divide(\n            charge_pos_ver, self._geo.pixel_vert_size\n        ).astype(int)", "        pixel_index_ver = Charge._index_of(charge_pos_ver, self._geo.pixel_vert_size)")]),
 ("BREAK staticmethod helper given the other size", "differs-bad", [ed(CH, "    def convert_df_to_array(self) -> np.ndarray:", "    @staticmethod\n    def _index_of(pos, size):\n        return np.floor_divide(pos, size).astype(int)\n\n    def convert_df_to_array(self) -> np.ndarray:"),
     ed(CH, "        pixel_index_ver = np.floor_divide(\n            charge_pos_ver, self._geo.pixel_vert_size\n        ).astype(int)", "        pixel_index_ver = Charge._index_of(charge_pos_ver, self._geo.pixel_horz_size)")]),
 ("instance helper method reading self._geo", "same", [ed(CH, "    def convert_df_to_array(self) -> np.ndarray:", "    def _row_of(self, pos):\n        size = self._geo.pixel_vert_size\n        return np.floor_divide(pos, size).astype(int)\n\n    def convert_df_to_array(self) -> np.ndarray:"),
     ed(CH, "        pixel_index_ver = np.floor_divide(\n            charge_pos_ver, self._geo.pixel_vert_size\n        ).astype(int)", "        pixel_index_ver = self._row_of(charge_pos_ver)")]),
 ("logging + docstring + annotation noise", "same", [ed(CH, MASK, "        logging.debug('masking %d clusters', len(charge_per_pixel))\n        inside: np.ndarray\n" + MASK)]),
 ("add_charge_array: accumulate via np.add out alias", "same", [ed(CH, "            self._array += array\n", "            target = self._array\n            np.add(target, array, out=target)\n")]),
 ("BREAK add_charge_array: alias taken, then rebinding to the argument", "differs-bad|failclosed", [ed(CH, "            self._array += array\n", "            target = array\n            target += self._array\n            self._array = target\n")]),
]

KERN = src[CH][src[CH].index("        # Late import to speedup start-up time\n        from numba import njit"):src[CH].index("        array = np.zeros((self._geo.row, self._geo.col))")]
TAIL = src[CH][src[CH].index("        # Changing = to += since charge dataframe is reset"):src[CH].index("    @staticmethod\n    def convert_array_to_df(")]
EXTRA = [
 ("np.add.at instead of the njit loop", "same", [ed(CH, KERN, ""), ed(CH, TAIL, "        np.add.at(array, (pixel_index_ver[inside], pixel_index_hor[inside]), charge_per_pixel[inside])\n        return array\n\n")]),
 ("BREAK buffered fancy += instead of the loop", "failclosed", [ed(CH, KERN, ""), ed(CH, TAIL, "        array[pixel_index_ver[inside], pixel_index_hor[inside]] += charge_per_pixel[inside]\n        return array\n\n")]),
 ("BREAK np.add.at with subscripts swapped", "differs-bad", [ed(CH, KERN, ""), ed(CH, TAIL, "        np.add.at(array, (pixel_index_hor[inside], pixel_index_ver[inside]), charge_per_pixel[inside])\n        return array\n\n")]),
]

PROP = '''        if not self._frame.empty:
            self._array = self.convert_df_to_array()
        return self._array
'''
EXTRA2 = [
 ("static helper makes the zero array (empty / removal)", "same", [ed(CH, "    def frame_empty", "    @staticmethod\n    def _zeros_like(a):\n        return np.zeros_like(a)\n\n    def frame_empty"),
     ed(CH, "            self._frame = self.EMPTY_FRAME.copy()\n        self._array = np.zeros_like(self._array)\n", "            self._frame = self.EMPTY_FRAME.copy()\n        self._array = Charge._zeros_like(self._array)\n")]),
 ("BREAK static helper returns its argument (reset keeps the array)", "failclosed", [ed(CH, "    def frame_empty", "    @staticmethod\n    def _zeros_like(a):\n        return a\n\n    def frame_empty"),
     ed(CH, "            self._frame = self.EMPTY_FRAME.copy()\n        self._array = np.zeros_like(self._array)\n", "            self._frame = self.EMPTY_FRAME.copy()\n        self._array = Charge._zeros_like(self._array)\n")]),
 ("array property: guard clause + named result", "same", [ed(CH, PROP, "        if self._frame.empty:\n            return self._array\n        rebuilt = self.convert_df_to_array()\n        self._array = rebuilt\n        return rebuilt\n")]),
 ("array property returns a copy", "differs-ok", [ed(CH, PROP, "        if self._frame.empty:\n            return self._array.copy()\n        rebuilt = self.convert_df_to_array()\n        self._array = rebuilt\n        return rebuilt.copy()\n")]),
 ("empty(): helper method resets the array", "same", [ed(CH, "        self._array = np.zeros_like(self._array)\n\n    def frame_empty", "        self._clear_array()\n\n    def _clear_array(self) -> None:\n        self._array = np.zeros_like(self._array)\n\n    def frame_empty")]),
 ("to_xarray: copy taken first", "same", [ed(CH, "        data_2d: np.ndarray = self.array\n", "        data_2d: np.ndarray = self.array\n        snapshot = data_2d.copy()\n"), ed(CH, "            data_2d.copy(),\n", "            snapshot,\n")]),
 ("BREAK to_xarray: alias instead of copy", "differs-bad", [ed(CH, "        data_2d: np.ndarray = self.array\n", "        data_2d: np.ndarray = self.array\n        snapshot = data_2d\n"), ed(CH, "            data_2d.copy(),\n", "            snapshot,\n")]),
 # ---- round 2d: call shapes (**display, functools.partial) and column mappings of create_charges
 ("centres called with **dict of the shared keywords", "same", [ed(CH, VCALL, "        grid = {\"num_rows\": num_rows, \"num_cols\": num_cols}\n" + VCALL.replace(VKW, "            **grid,\n")),
     ed(CH, HCALL, HCALL.replace(VKW, "            **grid,\n"))]),
 ("centres called with **dict(k=v)", "same", [ed(CH, VCALL, VCALL.replace(VKW, "            **dict(num_cols=num_cols, num_rows=num_rows),\n"))]),
 ("BREAK **dict with rows / cols crossed", "failclosed|differs-bad", [ed(CH, VCALL, "        grid = {\"num_rows\": num_cols, \"num_cols\": num_rows}\n" + VCALL.replace(VKW, "            **grid,\n"))]),
 ("BREAK **dict updated in place before use", "failclosed", [ed(CH, VCALL, "        grid = {\"num_rows\": num_rows, \"num_cols\": num_cols}\n        junk = grid.update(num_rows=num_cols)\n" + VCALL.replace(VKW, "            **grid,\n"))]),
 ("BREAK **dict rebound by |=", "failclosed", [ed(CH, VCALL, "        grid = {\"num_rows\": num_rows, \"num_cols\": num_cols}\n        grid |= {\"num_rows\": num_cols}\n" + VCALL.replace(VKW, "            **grid,\n"))]),
 ("centres through functools.partial", "same", [ed(CH, HELP, "from functools import partial\n" + HELP),
     ed(CH, VCALL, "        on_grid = partial(get_vertical_pixel_center_pos, num_rows=num_rows, num_cols=num_cols)\n        vertical_pixel_center_pos_1d = on_grid(pixel_vertical_size=pixel_vertical_size)\n")]),
 ("zeros through functools.partial", "same", [ed(CH, HELP, "import functools\n" + HELP),
     ed(CH, "        size: int = charge_number.size\n", "        size: int = charge_number.size\n        zeros = functools.partial(np.zeros, size)\n"), ed(CH, "init_energy=np.zeros(size)", "init_energy=zeros()")]),
 ("BREAK partial binds the other pixel size", "failclosed|differs-bad", [ed(CH, HELP, "from functools import partial\n" + HELP),
     ed(CH, VCALL, "        on_grid = partial(get_vertical_pixel_center_pos, num_rows=num_rows, pixel_vertical_size=pixel_horizontal_size)\n        vertical_pixel_center_pos_1d = on_grid(num_cols=num_cols)\n")]),
 ("BREAK partial keyword overridden by the call", "failclosed|differs-bad", [ed(CH, HELP, "from functools import partial\n" + HELP),
     ed(CH, VCALL, "        on_grid = partial(get_vertical_pixel_center_pos, num_rows=num_rows, num_cols=num_cols, pixel_vertical_size=pixel_vertical_size)\n        vertical_pixel_center_pos_1d = on_grid(num_rows=num_cols)\n")]),
 ("BREAK a local function named partial", "failclosed", [ed(CH, HELP, "from functools import partial\n" + HELP + "\n\ndef partial(f, **kw):\n    return lambda **k: f(**k)\n"),
     ed(CH, VCALL, "        on_grid = partial(get_vertical_pixel_center_pos, num_rows=num_rows, num_cols=num_cols)\n        vertical_pixel_center_pos_1d = on_grid(pixel_vertical_size=pixel_vertical_size)\n")]),
 ("columns: dict(zip(module tuple, local tuple, strict=True))", "same", [ed(CH, HELP, HELP + "\n_COLS = " + COLKEYS + "\n"), ed(CH, COLDICT, "        values = " + COLVALS + "\n        new_charges = dict(zip(_COLS, values, strict=True))\n")]),
 ("columns: dict(k=v)", "same", [ed(CH, COLDICT, "        new_charges = dict(" + ", ".join(f"{k}={v}" for k, v in COLPAIRS) + ")\n")]),
 ("columns: particle sign by match, list built after", "same", [ed(CH, SIGN, "        match particle_type:\n            case \"e\":\n                sign = -1\n            case \"h\":\n                sign = +1\n            case _:\n                raise ValueError(\"Given charged particle type can not be simulated\")\n        charge = [sign] * elements\n")]),
 ("BREAK columns: zip with number / energy values crossed", "failclosed", [ed(CH, HELP, HELP + "\n_COLS = " + COLKEYS + "\n"), ed(CH, COLDICT, "        values = " + COLVALS_X + "\n        new_charges = dict(zip(_COLS, values, strict=True))\n")]),
 ("BREAK columns: module key tuple with two names crossed", "failclosed", [ed(CH, HELP, HELP + "\n_COLS = " + COLKEYS_X + "\n"), ed(CH, COLDICT, "        values = " + COLVALS + "\n        new_charges = dict(zip(_COLS, values, strict=True))\n")]),
 ("BREAK columns: zip of displays of different lengths", "failclosed", [ed(CH, HELP, HELP + "\n_COLS = " + COLKEYS + "\n"), ed(CH, COLDICT, "        values = " + COLVALS_SHORT + "\n        new_charges = dict(zip(_COLS, values))\n")]),
 ("BREAK columns: key tuple assigned twice at module level", "failclosed", [ed(CH, HELP, HELP + "\n_COLS = " + COLKEYS + "\n_COLS = _COLS[::-1]\n"), ed(CH, COLDICT, "        values = " + COLVALS + "\n        new_charges = dict(zip(_COLS, values, strict=True))\n")]),
 ("BREAK columns: match capture rebinds a parameter", "failclosed", [ed(CH, SIGN, "        match particle_type:\n            case \"e\":\n                sign = -1\n            case \"h\":\n                sign = +1\n            case particles_per_cluster:\n                raise ValueError(\"Given charged particle type can not be simulated\")\n        charge = [sign] * elements\n")]),
 ("BREAK columns: a local function named dict", "failclosed", [ed(CH, HELP, HELP + "\n\ndef dict(**kw):\n    return {}\n"), ed(CH, COLDICT, "        new_charges = dict(" + ", ".join(f"{k}={v}" for k, v in COLPAIRS) + ")\n")]),
 # ---- round 2d: NamedTuple records for locals, helpers living in another module of the package, conditional expressions
 ("record: NamedTuple for the grid, fields read", "same", [ed(CH, HELP, "from typing import NamedTuple\n" + HELP + "\n\nclass _Grid(NamedTuple):\n    rows: int\n    cols: int\n"),
     ed(CH, VCALL, "        grid = _Grid(num_rows, cols=num_cols)\n" + VCALL.replace(VKW, "            num_rows=grid.rows,\n            num_cols=grid[1],\n"))]),
 ("record: NamedTuple unpacked", "same", [ed(CH, HELP, "import typing\n" + HELP + "\n\nclass _Grid(typing.NamedTuple):\n    \"\"\"grid\"\"\"\n    rows: int\n    cols: int\n"),
     ed(CH, VCALL, "        grid = _Grid(num_rows, num_cols)\n        n_r, n_c = grid\n" + VCALL.replace(VKW, "            num_rows=n_r,\n            num_cols=n_c,\n"))]),
 ("BREAK record built with the fields crossed", "failclosed|differs-bad", [ed(CH, HELP, "from typing import NamedTuple\n" + HELP + "\n\nclass _Grid(NamedTuple):\n    rows: int\n    cols: int\n"),
     ed(CH, VCALL, "        grid = _Grid(num_cols, num_rows)\n" + VCALL.replace(VKW, "            num_rows=grid.rows,\n            num_cols=grid.cols,\n"))]),
 ("BREAK record class with the fields declared in the other order", "failclosed|differs-bad", [ed(CH, HELP, "from typing import NamedTuple\n" + HELP + "\n\nclass _Grid(NamedTuple):\n    cols: int\n    rows: int\n"),
     ed(CH, VCALL, "        grid = _Grid(num_rows, num_cols)\n" + VCALL.replace(VKW, "            num_rows=grid.rows,\n            num_cols=grid.cols,\n"))]),
 ("BREAK record class with a property overriding nothing but not plain", "failclosed", [ed(CH, HELP, "from typing import NamedTuple\n" + HELP + "\n\nclass _Grid(NamedTuple):\n    rows: int\n    cols: int\n\n    def __getitem__(self, i):\n        return 1\n"),
     ed(CH, VCALL, "        grid = _Grid(num_rows, num_cols)\n" + VCALL.replace(VKW, "            num_rows=grid[0],\n            num_cols=grid[1],\n"))]),
 ("BREAK a plain class that merely looks like a record", "failclosed", [ed(CH, HELP, HELP + "\n\nclass NamedTuple:\n    def __init__(self, *a):\n        self.rows = self.cols = 1\n\n\nclass _Grid(NamedTuple):\n    rows: int\n    cols: int\n"),
     ed(CH, VCALL, "        grid = _Grid(num_rows, num_cols)\n" + VCALL.replace(VKW, "            num_rows=grid.rows,\n            num_cols=grid.cols,\n"))]),
 ("geometry: centre helper moved to a sibling module (relative import)", "same", [addfile("pyxel/detectors/_centres.py", "import numpy as np\n\n_HALF = 0.5\n\n\ndef centres_1d(n, s):\n    out = np.arange(0.0, n, 1.0) * s\n    out += s * _HALF\n    return out\n"),
     ed(GE, "from pyxel.util import get_size\n", "from pyxel.util import get_size\nfrom ._centres import centres_1d\n"), ed(GE, GVER, "    init_ver_position = centres_1d(num_rows, pixel_vertical_size)\n")]),
 ("geometry: centre helper re-exported by a package, late absolute import", "same", [addfile("pyxel/detectors/_centres.py", "import numpy as np\n\n\ndef centres_1d(n, s):\n    return (np.arange(n) + 0.5) * s\n"),
     addfile("pyxel/helpers/__init__.py", "from ..detectors._centres import centres_1d as pixel_centres\n"),
     ed(GE, GVER, "    from pyxel.helpers import pixel_centres\n    init_ver_position = pixel_centres(s=pixel_vertical_size, n=num_rows)\n")]),
 ("BREAK foreign centre helper without the half pixel", "differs-bad", [addfile("pyxel/detectors/_centres.py", "import numpy as np\n\n\ndef centres_1d(n, s):\n    return np.arange(n) * s\n"),
     ed(GE, "from pyxel.util import get_size\n", "from pyxel.util import get_size\nfrom ._centres import centres_1d\n"), ed(GE, GVER, "    init_ver_position = centres_1d(num_rows, pixel_vertical_size)\n")]),
 ("BREAK foreign centre helper: its module constant is assigned twice", "failclosed", [addfile("pyxel/detectors/_centres.py", "import numpy as np\n\n_HALF = 0.5\n_HALF = 1.0\n\n\ndef centres_1d(n, s):\n    return (np.arange(n) + _HALF) * s\n"),
     ed(GE, "from pyxel.util import get_size\n", "from pyxel.util import get_size\nfrom ._centres import centres_1d\n"), ed(GE, GVER, "    init_ver_position = centres_1d(num_rows, pixel_vertical_size)\n")]),
 ("BREAK foreign centre helper rebound in its module", "failclosed", [addfile("pyxel/detectors/_centres.py", "import numpy as np\n\n\ndef centres_1d(n, s):\n    return (np.arange(n) + 0.5) * s\n\n\ncentres_1d = lambda n, s: np.arange(n) * s\n"),
     ed(GE, "from pyxel.util import get_size\n", "from pyxel.util import get_size\nfrom ._centres import centres_1d\n"), ed(GE, GVER, "    init_ver_position = centres_1d(num_rows, pixel_vertical_size)\n")]),
 ("BREAK centre helper of another distribution", "failclosed", [addfile("otherpkg/centres.py", "import numpy as np\n\n\ndef centres_1d(n, s):\n    return (np.arange(n) + 0.5) * s\n"),
     ed(GE, "from pyxel.util import get_size\n", "from pyxel.util import get_size\nfrom otherpkg.centres import centres_1d\n"), ed(GE, GVER, "    init_ver_position = centres_1d(num_rows, pixel_vertical_size)\n")]),
 ("array property: conditional expression", "same", [ed(CH, PROP, "        self._array = self._array if self._frame.empty else self.convert_df_to_array()\n        return self._array\n")]),
 ("BREAK array property: conditional expression adopting the frame column", "failclosed|differs-bad", [ed(CH, PROP, "        self._array = self._array if self._frame.empty else self._frame[\"number\"].values\n        return self._array\n")]),
 ("BREAK empty(): `or` keeps the old array", "failclosed|differs-bad", [ed(CH, "        self._array = np.zeros_like(self._array)\n\n    def frame_empty", "        self._array = self._array or np.zeros_like(self._array)\n\n    def frame_empty")]),
]


def prove(files) -> bool:
    """True iff every theorem of Properties/C14.v is re-proved over the table regenerated from `files`."""
    import os
    import shutil
    import tempfile

    from harness import core
    from harness.props import c14 as prop

    d = Path(tempfile.mkdtemp(prefix="c14_selftest_"))
    old = os.environ.get("VERIF_REPO")
    try:
        for rel, text in files.items():
            (d / rel).parent.mkdir(parents=True, exist_ok=True)
            (d / rel).write_text(text)
        os.environ["VERIF_REPO"] = str(d)
        ctx = core.make_ctx("C14", "quick", 0)
        prop.proof(ctx)
        shutil.rmtree(ctx.build, ignore_errors=True)
        return not ctx.broken
    finally:
        if old is None:
            os.environ.pop("VERIF_REPO", None)
        else:
            os.environ["VERIF_REPO"] = old
        shutil.rmtree(d, ignore_errors=True)


def main() -> int:
    bad = 0
    for name, expect, edits in CASES + EXTRA + EXTRA2:
        files = dict(src)
        for e in edits:
            e(files)
        kind, info = run(files)
        ok = any(kind == x.split("-")[0] for x in expect.split("|"))
        if ok and PROVE and kind == "differs":
            proved = prove(files)
            want = [x.split("-")[1] for x in expect.split("|") if x.startswith("differs-")][0]
            ok = proved == (want == "ok")
            info = f"[theorems {'re-proved' if proved else 'BROKEN'}] " + info
        bad += not ok
        print(f"{'ok  ' if ok else 'FAIL'} {name:66s} -> {kind:10s} (expected {expect}) {info}", flush=True)
    print("unexpected:", bad)
    return 1 if bad else 0


if __name__ == "__main__":
    sys.exit(main())
