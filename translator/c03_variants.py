"""Own rewrites of the code anchored by C03, used to try the translator's normalisations (translator/c03_norm.py).

usage: /venv/bin/python translator/c03_variants.py <id> <dest>     builds <dest>/pyxel = /repo/pyxel + rewrite <id>
       /venv/bin/python translator/c03_variants.py --translate     translates every variant, prints same table / DIFFERENT / FAIL-CLOSED

h* / v* = behaviour-preserving rewrites (expected: the same table as the unchanged tree; `./check C03` quiet)
b*      = breaking changes that LOOK like such rewrites (expected: fail closed or a different table; `./check C03` alarms)
"""
import shutil, sys, tempfile
from pathlib import Path

IDS = ["h1", "h2", "h3", "v1", "v2", "v3", "v4", "v5", "b1", "b2", "b3", "b4", "b5", "b6", "b7"]
if sys.argv[1] == "--translate":
    import subprocess
    for r in IDS:
        d = tempfile.mkdtemp(prefix="c03var_")
        subprocess.run([sys.executable, __file__, r, d], check=True, stdout=subprocess.DEVNULL)
        code = ("import sys; sys.path.insert(0, %r)\nfrom pathlib import Path\nimport translator.c03 as tr\n"
                "try:\n    t = tr.translate(Path(%r))\n    print('same table' if t == tr.FALLBACK else 'DIFFERENT TABLE')\n"
                "except Exception as ex:\n    print('FAIL-CLOSED:', str(ex)[:150].replace(chr(10), ' '))\n") % (str(Path(__file__).resolve().parent.parent), d)
        out = subprocess.run([sys.executable, "-c", code], capture_output=True, text=True)
        print(r, (out.stdout + out.stderr[-300:]).strip())
        shutil.rmtree(d, ignore_errors=True)
    raise SystemExit(0)
rid, dest = sys.argv[1], Path(sys.argv[2])
shutil.rmtree(dest, ignore_errors=True); dest.mkdir(parents=True)
shutil.copytree("/repo/pyxel", dest / "pyxel")

def sub(rel, old, new, count=1):
    p = dest / rel; s = p.read_text()
    assert s.count(old) >= 1, (rel, old[:60])
    p.write_text(s.replace(old, new, count))

EXP = "pyxel/exposure/exposure.py"; DET = "pyxel/detectors/detector.py"; MG = "pyxel/pipelines/model_group.py"; PH = "pyxel/data_structure/photon.py"

KEYS_OLD = '''    keys: Sequence[str] = (
        "scene",
        "photon",
        "charge",
        "pixel",
        "signal",
        "image",
        "data",
    )

    for key in keys:
        if key.startswith("data") or key.startswith("scene"):
            continue

        obj: Photon | Pixel | Image | Signal | Charge = getattr(detector, key)

        # TODO: Is this necessary ?
        if not isinstance(obj, Photon | Pixel | Image | Signal | Charge):
            raise TypeError(
                f"Wrong type from attribute 'detector.{key}'. Type: {type(obj)!r}"
            )

        data_array: xr.DataArray = obj.to_xarray()
        data_array.name = "value"  # TODO: Is is necessary ?

        dataset[key] = data_array

    # Get current absolute time
    absolute_time = xr.DataArray(
        [detector.absolute_time],
        dims="time",
        attrs={"units": "s", "long_name": "Readout time"},
    )
'''
LABEL_HELPER = '''def _readout_time_label(detector: "Detector") -> "xr.DataArray":
    """Label of one readout along dimension 'time'."""
    import xarray as xr

    return xr.DataArray(
        [detector.absolute_time],
        dims="time",
        attrs={"units": "s", "long_name": "Readout time"},
    )


_ALL_KEYS: tuple[str, ...] = ("scene", "photon", "charge", "pixel", "signal", "image", "data")
_NOT_BUCKETS: tuple[str, ...] = ("data", "scene")


def _extract_datatree_2d('''

if rid == "h1":
    # module-level constants, nested if instead of `continue`, startswith(tuple), renamed locals, value-returning helper
    sub(EXP, 'def _extract_datatree_2d(', LABEL_HELPER)
    sub(EXP, KEYS_OLD, '''    for key in _ALL_KEYS:
        if not key.startswith(("data", "scene")):
            container = getattr(detector, key)

            if isinstance(container, Photon | Pixel | Image | Signal | Charge):
                readout_2d: xr.DataArray = container.to_xarray()
                readout_2d.name = "value"
                dataset[key] = readout_2d
            else:
                raise TypeError(f"Unexpected container 'detector.{key}': {type(container)!r}")

    absolute_time = _readout_time_label(detector)
''')
elif rid == "h2":
    # Detector.to_xarray: guard clauses reordered into one chain, names tuple as a local constant, == test first
    sub(DET, '''        for name in ("photon", "charge", "pixel", "signal", "image"):
            container: Photon | Charge | Pixel | Signal | Image = getattr(self, name)
            data_array: xr.DataArray = container.to_xarray()

            # TODO: Special case, this will be fixed in issue #692
            if name == "charge" and bool((data_array == 0).all()):
                # No charges
                continue

            if data_array.ndim != 0:
                ds[name] = data_array
''', '''        bucket_names: tuple[str, ...] = ("photon", "charge", "pixel", "signal", "image")
        for name in bucket_names:
            readout: xr.DataArray = getattr(self, name).to_xarray()

            is_empty_charge: bool = "charge" == name and bool((readout == 0).all())
            if is_empty_charge:
                continue

            if readout.ndim == 0:
                # Not initialized
                continue

            ds[name] = readout
''')
    # Photon.to_xarray: the two cases swapped
    s = (dest / PH).read_text()
    a = s.index("        if isinstance(self._array, np.ndarray):\n            num_rows, num_cols = self.shape")
    b = s.index("        else:\n            data_3d: xr.DataArray = self._array.astype(dtype=dtype)")
    c = s.index("            return data_3d\n") + len("            return data_3d\n")
    two_d = s[a:b].replace("        if isinstance(self._array, np.ndarray):\n", "")
    three_d = s[b:c].replace("        else:\n", "")
    s = s[:a] + "        if not isinstance(self._array, np.ndarray):\n" + three_d + "\n" + "\n".join(l[4:] if l.startswith("    ") else l for l in two_d.splitlines()) + "\n" + s[c:]
    (dest / PH).write_text(s)
elif rid == "h3":
    # ModelGroup.run: reference taken by a private method; comparison loop with `continue`; run_pipeline: inverted is_empty test
    sub(MG, "                last_full_ds = detector.to_xarray().copy(deep=True)\n", "                last_full_ds = self._snapshot(detector)\n")
    sub(MG, "    def run(", '''    def _snapshot(self, detector: "Detector") -> "xr.Dataset":
        """Independent copy of all buckets of the detector."""
        full_ds = detector.to_xarray()
        return full_ds.copy(deep=True)

    def run(''')
    s = (dest / MG).read_text()
    a = s.index("                for name, data_array in ds.data_vars.items():")
    s = s[:a] + '''                node_path = f"{pipeline_key}/{model_group_key}/{model_key}"
                for name, data_array in ds.data_vars.items():
                    if name in last_full_ds and np.allclose(data_array, last_full_ds[name]):
                        # Unchanged by this model
                        continue

                    detector.intermediate[node_path + "/" + name] = data_array
'''
    b_tail = (dest / MG).read_text()
    # keep whatever follows the original loop (it is the end of the method: find the next 'def ' or EOF)
    rest_idx = b_tail.find("\n    def ", a)
    s += b_tail[rest_idx:] if rest_idx != -1 else ""
    (dest / MG).write_text(s)
    sub(EXP, '''            if buckets_data_tree.is_empty:
                buckets_data_tree = partial_datatree_2d
            else:
''', '''            if not buckets_data_tree.is_empty:
''')
    sub(EXP, '''                            dtype=exp_dtype
                        )
''', '''                            dtype=exp_dtype
                        )
            else:
                buckets_data_tree = partial_datatree_2d
''')
elif rid == "b1":
    # looks like r1(a): helper extracted, but it works on a COPY of the tree (argument not mutated in place)
    sub(EXP, "def run_pipeline(", '''def _restore_image_dtype(buckets_data_tree: "xr.DataTree", detector: "Detector") -> None:
    """Fix the data type of bucket 'image' to match the detector's image dtype (#652)."""
    if detector.image._array is None:
        return

    buckets_data_tree = buckets_data_tree.copy()
    current_dtype: np.dtype = buckets_data_tree["image"].dtype
    expected_dtype: np.dtype = detector.image.dtype
    if current_dtype == expected_dtype:
        return
    if current_dtype.kind == "u":
        return
    buckets_data_tree["image"] = buckets_data_tree["image"].astype(dtype=expected_dtype)


def run_pipeline(''')
    s = (dest / EXP).read_text()
    a = s.index("                if detector.image._array is not None:\n                    image_dtype")
    b = s.index("            # Update the progress bar after each step.")
    s = s[:a] + "                _restore_image_dtype(buckets_data_tree, detector)\n\n" + s[b:]
    (dest / EXP).write_text(s)
elif rid == "b2":
    # looks like r2(a): alias of the intermediate tree, but taken BEFORE the tree is created / final tree aliased before the loop
    sub(EXP, "        buckets_data_tree: xr.DataTree = xr.DataTree()\n", "        buckets_data_tree: xr.DataTree = xr.DataTree()\n        final_buckets: xr.DataTree = buckets_data_tree\n")
    sub(EXP, '            dct["/bucket"] = buckets_data_tree\n', '            dct["/bucket"] = final_buckets\n')
elif rid == "b3":
    # looks like r1(a) guard clauses, one condition NOT inverted
    sub(EXP, '''                    if image_dtype != exp_dtype and image_dtype.kind != "u":
                        buckets_data_tree["image"] = buckets_data_tree["image"].astype(
                            dtype=exp_dtype
                        )
''', '''                    if image_dtype != exp_dtype:
                        continue
                    if image_dtype.kind != "u":
                        buckets_data_tree["image"] = buckets_data_tree["image"].astype(
                            dtype=exp_dtype
                        )
''')
elif rid == "b4":
    # looks like h3: comparison with a guard clause whose condition is not inverted (`or` for `and`)
    s = (dest / MG).read_text()
    a = s.index("                for name, data_array in ds.data_vars.items():")
    rest_idx = s.find("\n    def ", a)
    s2 = s[:a] + '''                for name, data_array in ds.data_vars.items():
                    if name not in last_full_ds:
                        continue
                    if np.allclose(data_array, last_full_ds[name]):
                        continue

                    detector.intermediate[
                        f"{pipeline_key}/{model_group_key}/{model_key}/{name}"
                    ] = data_array
'''
    s2 += s[rest_idx:] if rest_idx != -1 else ""
    (dest / MG).write_text(s2)
elif rid == "b5":
    # looks like r2(b): node path computed once -- with the group and model segments swapped
    s = (dest / MG).read_text()
    s = s.replace('f"{pipeline_key}/{model_group_key}/{model_key}/{name}"', 'f"{node_path}/{name}"')
    s = s.replace("                for name, data_array in ds.data_vars.items():", '                node_path: str = f"{pipeline_key}/{model_key}/{model_group_key}"\n                for name, data_array in ds.data_vars.items():')
    (dest / MG).write_text(s)
elif rid == "v1":
    # `match` on the key instead of the startswith test; keys as a module-level constant
    sub(EXP, """        if key.startswith("data") or key.startswith("scene"):
            continue
""", """        match key:
            case "data" | "scene":
                continue
            case _:
                pass
""")
elif rid in ("v2", "b6"):
    # De Morgan form of the dtype guard (b6: `and` for `or` -- not equivalent)
    sub(EXP, 'if image_dtype != exp_dtype and image_dtype.kind != "u":',
        'if not (image_dtype == exp_dtype %s image_dtype.kind == "u"):' % ("or" if rid == "v2" else "and"))
elif rid == "v3":
    # layout branches swapped under a negated test; conditional expression for the intermediate tree as if/else
    sub(EXP, """        if with_inherited_coords:
            dct["/bucket"] = buckets_data_tree
        else:
            dct["/"] = buckets_data_tree
""", """        if not with_inherited_coords:
            dct["/"] = buckets_data_tree
        else:
            dct["/bucket"] = buckets_data_tree
""")
    sub(EXP, """            datatree_intermediate: xr.DataTree = (
                xr.DataTree(name="intermediate")
                if detector._intermediate is None
                else detector.intermediate
            )
""", """            if detector._intermediate is not None:
                datatree_intermediate = detector.intermediate
            else:
                datatree_intermediate = xr.DataTree(name="intermediate")
""")
elif rid == "v4":
    # ArrayBase.to_xarray: positive test with the empty result at the end; rows / cols from a private method
    s = (dest / "pyxel/data_structure/array.py").read_text()
    a = s.index("        if self._array is None:\n            return xr.DataArray()\n\n        rows = xr.DataArray(")
    b = s.index("    def ", a)
    body = s[a:b].replace("        if self._array is None:\n            return xr.DataArray()\n\n", "")
    body = "        if self._array is not None:\n" + "\n".join(("    " + l) if l.strip() else l for l in body.rstrip().splitlines()) + "\n\n        return xr.DataArray()\n\n"
    (dest / "pyxel/data_structure/array.py").write_text(s[:a] + body + s[b:])
elif rid == "v5":
    # the combining function as a local `def`; the expanded dataset as a named intermediate result
    sub(EXP, "        buckets_data_tree: xr.DataTree = xr.DataTree()\n", """        buckets_data_tree: xr.DataTree = xr.DataTree()

        def concat_steps(*step_datasets: xr.Dataset) -> xr.Dataset:
            return xr.concat(step_datasets, dim="time")
""")
    sub(EXP, '                    lambda *data: xr.concat(data, dim="time"),  # function\n', "                    concat_steps,\n")
    sub(EXP, """    dataset_with_time: xr.Dataset = dataset.expand_dims(dim="time").assign_coords(
        time=absolute_time
    )
""", """    expanded: xr.Dataset = dataset.expand_dims(dim="time")
    dataset_with_time: xr.Dataset = expanded.assign_coords(time=absolute_time)
""")
elif rid == "b7":
    # looks like h1: time label from a private helper -- which reads the RELATIVE time
    sub(EXP, 'def _extract_datatree_2d(', LABEL_HELPER.replace("detector.absolute_time", "detector.time"))
    s = (dest / EXP).read_text()
    a = s.index("    absolute_time = xr.DataArray(\n        [detector.absolute_time],")
    b = s.index("    # Add dimension 'time'")
    (dest / EXP).write_text(s[:a] + "    absolute_time = _readout_time_label(detector)\n\n" + s[b:])
else:
    raise SystemExit("unknown id")
import ast
for f in (EXP, DET, MG, PH, "pyxel/data_structure/array.py"):
    ast.parse((dest / f).read_text())
print("built", rid, dest)
